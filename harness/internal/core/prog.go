package core

import (
	"bytes"
	"encoding/binary"
	"encoding/hex"
	"fmt"
	"math/rand"
	"path/filepath"

	"github.com/akrylysov/pogreb"

	"pvh/internal/keyeng"
)

// OpKind is an API call of a generated program.
type OpKind uint8

const (
	OpPut OpKind = iota
	OpDelete
	OpGet
	OpGetAppend
	OpHas
	OpCount
	OpItems
	OpSync
	OpCompact
	OpReopen // Close + Open (clean restart)
	OpVerify // structural index walk + full read-back
	numOpKinds
)

var opNames = [...]string{"put", "del", "get", "getappend", "has", "count", "items", "sync", "compact", "reopen", "verify"}

func (k OpKind) String() string { return opNames[k] }

// Op is one call. Values are derived from (index of the op in the program, VLen).
type Op struct {
	K    OpKind
	Key  int
	VLen int
}

func (o Op) String() string {
	switch o.K {
	case OpPut:
		return fmt.Sprintf("put k%d len=%d", o.Key, o.VLen)
	case OpDelete, OpGet, OpGetAppend, OpHas:
		return fmt.Sprintf("%s k%d", o.K, o.Key)
	}
	return o.K.String()
}

// MakeVal returns the value written by op number idx: VLen bytes, unique per idx when VLen >= 4.
func MakeVal(idx int, vlen int) []byte {
	v := make([]byte, vlen)
	var tag [8]byte
	binary.LittleEndian.PutUint32(tag[:], uint32(idx)+1)
	tag[4] = 'v'
	tag[5] = byte(idx * 7)
	tag[6] = byte(idx >> 3)
	tag[7] = '.'
	for i := range v {
		v[i] = tag[i%8] + byte(i/8)
	}
	return v
}

// KeySpec says how many keys of each engineered class to build.
type KeySpec struct {
	SameHashGroups int // groups of keys with identical 32-bit hash
	SameHashSize   int
	Chain16        int // keys sharing the low 16 bits (one bucket chain through many splits)
	Chain6         int // keys sharing the low 6 bits
	Chain3         int // keys sharing the low 3 bits (splits redistribute them early)
	Plain          int // ordinary keys of assorted lengths
	LongKeys       int // keys of 300..2000 bytes
}

// KeySet is a set of keys engineered for one hash seed.
type KeySet struct {
	Seed  uint32
	Keys  [][]byte
	Class []string
}

// GenKeys builds the key set for a pinned hash seed.
func GenKeys(rng *rand.Rand, seed uint32, spec KeySpec) *KeySet {
	ks := &KeySet{Seed: seed}
	used := map[string]bool{}
	add := func(k []byte, class string) {
		if used[string(k)] {
			return
		}
		used[string(k)] = true
		ks.Keys = append(ks.Keys, k)
		ks.Class = append(ks.Class, class)
	}
	engineered := func(target uint32, class string) {
		// vary the shape: 8-byte keys, longer prefixes, 1-3 byte tails
		switch rng.Intn(4) {
		case 0:
			add(keyeng.Key8(seed, rng.Uint32(), target), class)
		case 1:
			prefix := make([]byte, 4*(1+rng.Intn(4)))
			rng.Read(prefix)
			add(keyeng.Solve(seed, prefix, nil, target), class)
		case 2:
			prefix := make([]byte, 4*rng.Intn(3))
			rng.Read(prefix)
			tail := make([]byte, 1+rng.Intn(3))
			rng.Read(tail)
			add(keyeng.Solve(seed, prefix, tail, target), class)
		default:
			add(keyeng.Solve(seed, nil, nil, target), class) // 4-byte key: unique per target
			add(keyeng.Key8(seed, rng.Uint32(), target), class)
		}
	}
	for g := 0; g < spec.SameHashGroups; g++ {
		target := rng.Uint32()
		for i := 0; i < spec.SameHashSize; i++ {
			engineered(target, "samehash")
		}
	}
	lo16 := rng.Uint32() & 0xffff
	for i := 0; i < spec.Chain16; i++ {
		engineered(lo16|rng.Uint32()<<16, "chain16")
	}
	lo6 := rng.Uint32() & 0x3f
	for i := 0; i < spec.Chain6; i++ {
		engineered(lo6|rng.Uint32()<<6, "chain6")
	}
	lo3 := rng.Uint32() & 0x7
	for i := 0; i < spec.Chain3; i++ {
		engineered(lo3|rng.Uint32()<<3, "chain3")
	}
	for i := 0; i < spec.Plain; i++ {
		var k []byte
		switch rng.Intn(6) {
		case 0:
			k = []byte{byte(i)}
			if i > 255 {
				k = []byte{byte(i), byte(i >> 8)}
			}
		case 1:
			k = []byte(fmt.Sprintf("key-%d", i))
		default:
			k = make([]byte, 1+rng.Intn(24))
			rng.Read(k)
		}
		add(k, "plain")
	}
	for i := 0; i < spec.LongKeys; i++ {
		k := make([]byte, 300+rng.Intn(1700))
		rng.Read(k)
		add(k, "long")
	}
	if spec.Plain > 0 && rng.Intn(2) == 0 {
		add([]byte{}, "empty")
	}
	return ks
}

// ByClass returns the indices of keys of a class.
func (ks *KeySet) ByClass(class string) []int {
	var out []int
	for i, c := range ks.Class {
		if c == class {
			out = append(out, i)
		}
	}
	return out
}

// HexKeys renders keys for replay files/samples.
func (ks *KeySet) HexKeys(max int) []string {
	var out []string
	for i, k := range ks.Keys {
		if i >= max {
			break
		}
		s := hex.EncodeToString(k)
		if len(s) > 48 {
			s = s[:48] + fmt.Sprintf("..(%dB)", len(k))
		}
		out = append(out, s)
	}
	return out
}

// Program is a generated sequence of API calls over an engineered key set.
type Program struct {
	HashSeed uint32
	Keys     *KeySet
	Cfg      Config
	Ops      []Op
}

// ProgSpec tunes program generation.
type ProgSpec struct {
	NOps        int
	Reopen      bool // include clean restarts
	ValueSizes  []int
	CompactPct  int
	VerifyEvery int
}

var defaultValueSizes = []int{0, 1, 4, 8, 8, 10, 12, 16, 16, 24, 40, 100, 300, 700, 1300}

// GenOps generates calls in phases; each phase works on one key class with one mix, so that chains fill
// up, get holes at every position, are re-filled, split away and re-grown.
func GenOps(rng *rand.Rand, ks *KeySet, spec ProgSpec) []Op {
	if spec.ValueSizes == nil {
		spec.ValueSizes = defaultValueSizes
	}
	classes := map[string][]int{}
	var classNames []string
	for i, c := range ks.Class {
		if _, ok := classes[c]; !ok {
			classNames = append(classNames, c)
		}
		classes[c] = append(classes[c], i)
	}
	all := make([]int, len(ks.Keys))
	for i := range all {
		all[i] = i
	}
	var ops []Op
	for len(ops) < spec.NOps {
		pool := all
		if rng.Intn(10) < 7 {
			pool = classes[classNames[rng.Intn(len(classNames))]]
		}
		// phase mix: 0 fill (puts), 1 delete-heavy, 2 mixed, 3 read-heavy, 4 overwrite-heavy
		mix := rng.Intn(5)
		n := 10 + rng.Intn(120)
		if mix == 0 {
			// fill: put every key of the pool once, in random order (grows chains deterministically)
			perm := rng.Perm(len(pool))
			if len(perm) > n*2 {
				perm = perm[:n*2]
			}
			for _, pi := range perm {
				ops = append(ops, Op{K: OpPut, Key: pool[pi], VLen: spec.ValueSizes[rng.Intn(len(spec.ValueSizes))]})
			}
			continue
		}
		for i := 0; i < n && len(ops) < spec.NOps; i++ {
			key := pool[rng.Intn(len(pool))]
			r := rng.Intn(100)
			var putP, delP int
			switch mix {
			case 1:
				putP, delP = 15, 60
			case 2:
				putP, delP = 40, 30
			case 3:
				putP, delP = 10, 10
			case 4:
				putP, delP = 75, 5
			}
			switch {
			case r < putP:
				ops = append(ops, Op{K: OpPut, Key: key, VLen: spec.ValueSizes[rng.Intn(len(spec.ValueSizes))]})
			case r < putP+delP:
				ops = append(ops, Op{K: OpDelete, Key: key})
			default:
				switch rng.Intn(12) {
				case 0, 1, 2, 3:
					ops = append(ops, Op{K: OpGet, Key: key})
				case 4, 5:
					ops = append(ops, Op{K: OpGetAppend, Key: key})
				case 6, 7:
					ops = append(ops, Op{K: OpHas, Key: key})
				case 8:
					ops = append(ops, Op{K: OpCount})
				case 9:
					if rng.Intn(4) == 0 {
						ops = append(ops, Op{K: OpItems})
					} else {
						ops = append(ops, Op{K: OpGet, Key: key})
					}
				case 10:
					if rng.Intn(100) < spec.CompactPct {
						ops = append(ops, Op{K: OpCompact})
					} else {
						ops = append(ops, Op{K: OpSync})
					}
				case 11:
					if spec.Reopen && rng.Intn(3) == 0 {
						ops = append(ops, Op{K: OpReopen})
					} else {
						ops = append(ops, Op{K: OpHas, Key: key})
					}
				}
			}
		}
		if rng.Intn(3) == 0 {
			ops = append(ops, Op{K: OpCompact})
		}
	}
	return ops
}

// RandConfig draws thresholds from a small grid.
func RandConfig(rng *rand.Rand) Config {
	maxSegs := []uint32{1024, 2048, 4096, 4096, 16384, 65536, 0}
	minSegs := []uint32{513, 600, 1024, 2048, 0}
	frags := []float32{0.01, 0.1, 0.15, 0.3, 0.5, 0}
	return Config{
		MaxSeg: maxSegs[rng.Intn(len(maxSegs))],
		MinSeg: minSegs[rng.Intn(len(minSegs))],
		Frag:   frags[rng.Intn(len(frags))],
	}
}

// Exec executes a program against a database and the reference model.
type Exec struct {
	Env    *Env
	Cfg    Config
	DB     *pogreb.DB
	Ref    State
	Keys   [][]byte
	C      *Ctx
	OpIdx  int
	Shapes map[string]bool
	// Hooks
	AfterReopen func(x *Exec) string // extra checks right after a clean restart
	// AltFS makes every clean restart switch between fs.OS and fs.OSMMap on the same directory.
	AltFS bool
	// IdleCycles makes every clean restart do an additional Open+Close without writes and compare the
	// segment files before and after.
	IdleCycles bool
	// AltSpelling makes every clean restart on Mem/CrashFS address the directory by another equivalent path spelling.
	AltSpelling bool
	baseDir     string
	spell       int
}

// segmentFiles returns name -> bytes for the segment files of the database directory.
func (x *Exec) segmentFiles() map[string]string {
	out := map[string]string{}
	files, err := x.Env.ReadDirFiles(x.Env.Dir)
	if err != nil {
		return out
	}
	for n, d := range files {
		if len(n) > 4 && n[len(n)-4:] == ".psg" {
			out[n] = string(d)
		}
	}
	return out
}

// NewExec opens the database.
func NewExec(c *Ctx, env *Env, cfg Config, keys [][]byte) (*Exec, error) {
	db, err := env.Open(cfg)
	if err != nil {
		return nil, err
	}
	return &Exec{Env: env, Cfg: cfg, DB: db, Ref: State{}, Keys: keys, C: c, Shapes: map[string]bool{}}, nil
}

// Verify does the structural walk and a full read-back; returns a description of the first problem.
func (x *Exec) Verify() string {
	st, err := Dump(x.DB, x.Keys)
	if err != nil {
		return "read-back: " + err.Error()
	}
	if !st.Equal(x.Ref) {
		return "read-back differs from reference: " + st.Diff(x.Ref, 4)
	}
	problems, notes, shape := CheckIndex(x.DB, x.Env, x.Ref)
	x.Shapes[shape.Key()] = true
	if x.C != nil {
		x.C.StatMax("max_chain", int64(shape.MaxChain))
		x.C.StatMax("max_level", int64(shape.Level))
		x.C.StatMax("max_free_list", int64(shape.Free))
		x.C.Distinct("shape", shape.Key())
		for _, n := range notes {
			x.C.Note("%s", n)
		}
	}
	if len(problems) > 0 {
		return "index: " + problems[0] + fmt.Sprintf(" (%d problems)", len(problems))
	}
	return ""
}

// Do executes one call and compares its result with the reference model. It returns ("", "") when the
// call agrees, otherwise a signature class and a description.
func (x *Exec) Do(op Op) (sig, detail string) {
	idx := x.OpIdx
	x.OpIdx++
	if x.C != nil {
		x.C.Stat("op_"+op.K.String(), 1)
		x.C.Eval(1)
	}
	var key []byte
	if op.Key < len(x.Keys) {
		key = x.Keys[op.Key]
	}
	switch op.K {
	case OpPut:
		val := MakeVal(idx, op.VLen)
		kc := append([]byte(nil), key...)
		if err := x.DB.Put(kc, val); err != nil {
			return "put-error", fmt.Sprintf("op %d %v: %v", idx, op, err)
		}
		x.Ref[string(key)] = string(MakeVal(idx, op.VLen))
	case OpDelete:
		if err := x.DB.Delete(key); err != nil {
			return "delete-error", fmt.Sprintf("op %d %v: %v", idx, op, err)
		}
		delete(x.Ref, string(key))
	case OpGet:
		v, err := x.DB.Get(key)
		if err != nil {
			return "get-error", fmt.Sprintf("op %d %v: %v", idx, op, err)
		}
		w, ok := x.Ref[string(key)]
		if ok != (v != nil) || string(v) != w {
			return "get-mismatch", fmt.Sprintf("op %d %v: got %s (nil=%v), want %s (present=%v)", idx, op, short(string(v)), v == nil, short(w), ok)
		}
	case OpGetAppend:
		buf := make([]byte, 5, 5+idx%40)
		copy(buf, "BUF>>")
		v, err := x.DB.GetAppend(key, buf)
		if err != nil {
			return "getappend-error", fmt.Sprintf("op %d %v: %v", idx, op, err)
		}
		w, ok := x.Ref[string(key)]
		if !ok {
			if v != nil {
				return "getappend-mismatch", fmt.Sprintf("op %d %v: absent key returned %s", idx, op, short(string(v)))
			}
		} else if !bytes.Equal(v, append([]byte("BUF>>"), w...)) {
			return "getappend-mismatch", fmt.Sprintf("op %d %v: got %s, want BUF>>+%s", idx, op, short(string(v)), short(w))
		}
		if string(buf) != "BUF>>" {
			return "getappend-mismatch", fmt.Sprintf("op %d %v: caller's buffer prefix changed to %q", idx, op, buf)
		}
	case OpHas:
		h, err := x.DB.Has(key)
		if err != nil {
			return "has-error", fmt.Sprintf("op %d %v: %v", idx, op, err)
		}
		if _, ok := x.Ref[string(key)]; ok != h {
			return "has-mismatch", fmt.Sprintf("op %d %v: got %v want %v", idx, op, h, ok)
		}
	case OpCount:
		if c := int(x.DB.Count()); c != len(x.Ref) {
			return "count-mismatch", fmt.Sprintf("op %d: Count()=%d, reference has %d keys", idx, c, len(x.Ref))
		}
	case OpItems:
		st, err := Dump(x.DB, nil)
		if err != nil {
			return "items-mismatch", fmt.Sprintf("op %d items: %v", idx, err)
		}
		if !st.Equal(x.Ref) {
			return "items-mismatch", fmt.Sprintf("op %d items: %s", idx, st.Diff(x.Ref, 4))
		}
	case OpSync:
		if err := x.DB.Sync(); err != nil {
			return "sync-error", fmt.Sprintf("op %d sync: %v", idx, err)
		}
	case OpCompact:
		cr, err := x.DB.Compact()
		if err != nil {
			return "compact-error", fmt.Sprintf("op %d compact: %v", idx, err)
		}
		if x.C != nil && cr.CompactedSegments > 0 {
			x.C.Stat("compactions_effective", 1)
			x.C.Stat("segments_compacted", int64(cr.CompactedSegments))
		}
	case OpReopen:
		if err := x.DB.Close(); err != nil {
			return "close-error", fmt.Sprintf("op %d close: %v", idx, err)
		}
		x.DB = nil
		if names := x.Env.List(x.Env.Dir); names["lock"] != 0 || hasKey(names, "lock") {
			return "close-left-lock", fmt.Sprintf("op %d: lock file still present after Close returned nil", idx)
		}
		if x.AltFS && (x.Env.Kind == FSOS || x.Env.Kind == FSOSMMap) {
			if x.Env.Kind == FSOS {
				x.Env = x.Env.WithKind(FSOSMMap)
			} else {
				x.Env = x.Env.WithKind(FSOS)
			}
			if x.C != nil {
				x.C.Stat("fs_switches", 1)
			}
		}
		if x.AltSpelling && (x.Env.Kind == FSMem || x.Env.Kind == FSCrash) {
			// the same directory under another, equivalent spelling of its path
			if x.baseDir == "" {
				x.baseDir = x.Env.Dir
			}
			x.spell++
			d := x.baseDir
			switch x.spell % 4 {
			case 1:
				d = "./" + d
			case 2:
				d = d + "/"
			case 3:
				d = filepath.Dir(d) + "/sub/../" + filepath.Base(d)
			}
			e := *x.Env
			e.Dir = d
			x.Env = &e
			if x.C != nil {
				x.C.Stat("path_spellings", 1)
			}
		}
		rec := Recoveries()
		if x.IdleCycles {
			before := x.segmentFiles()
			db, err := x.Env.Open(x.Cfg)
			if err != nil {
				return "reopen-error", fmt.Sprintf("op %d open after clean close: %v", idx, err)
			}
			cnt := int(db.Count())
			if err := db.Close(); err != nil {
				return "close-error", fmt.Sprintf("op %d close of idle session: %v", idx, err)
			}
			if cnt != len(x.Ref) {
				return "reopen-mismatch", fmt.Sprintf("op %d: Count()=%d after clean restart, reference has %d", idx, cnt, len(x.Ref))
			}
			after := x.segmentFiles()
			// Open needs a writable current segment: when every existing segment is sealed (or none is left after a
			// compaction) it creates a new, empty one. That adds no record; anything else must be unchanged.
			for n, d := range after {
				if _, ok := before[n]; !ok && len(d) != 512 {
					return "idle-cycle-changed-files", fmt.Sprintf("op %d: Open+Close without writes created segment %s with %d bytes", idx, n, len(d))
				}
			}
			if len(after) < len(before) {
				return "idle-cycle-changed-files", fmt.Sprintf("op %d: Open+Close without writes removed segment files: %d -> %d", idx, len(before), len(after))
			}
			for n, d := range before {
				if after[n] != d {
					return "idle-cycle-changed-files", fmt.Sprintf("op %d: Open+Close without writes changed segment %s (len %d -> %d)", idx, n, len(d), len(after[n]))
				}
			}
			if x.C != nil {
				x.C.Stat("idle_cycles", 1)
			}
		}
		db, err := x.Env.Open(x.Cfg)
		if err != nil {
			return "reopen-error", fmt.Sprintf("op %d open after clean close: %v", idx, err)
		}
		x.DB = db
		if x.C != nil {
			x.C.Stat("clean_restarts", 1)
		}
		if Recoveries() != rec {
			return "reopen-recovered", fmt.Sprintf("op %d: open after a clean close ran recovery", idx)
		}
		if x.AfterReopen != nil {
			if d := x.AfterReopen(x); d != "" {
				return "reopen-mismatch", fmt.Sprintf("op %d: %s", idx, d)
			}
		}
	case OpVerify:
		if d := x.Verify(); d != "" {
			return "verify-mismatch", fmt.Sprintf("op %d: %s", idx, d)
		}
	}
	// Count is cheap: compare it after every call.
	if c := int(x.DB.Count()); c != len(x.Ref) {
		return "count-mismatch", fmt.Sprintf("after op %d %v: Count()=%d, reference has %d keys", idx, op, c, len(x.Ref))
	}
	return "", ""
}

func hasKey(m map[string]int64, k string) bool { _, ok := m[k]; return ok }

// OpsToStrings renders ops for samples and replay data.
func OpsToStrings(ops []Op, max int) []string {
	var out []string
	for i, o := range ops {
		if i >= max {
			out = append(out, fmt.Sprintf("... %d more", len(ops)-max))
			break
		}
		out = append(out, o.String())
	}
	return out
}
