package checks

import (
	"fmt"
	"path/filepath"

	"pvh/internal/core"
	"pvh/internal/crashfs"
)

func init() {
	core.Register(&core.Check{
		ID:    "C03",
		Level: "fault_enumeration",
		Rule: "one case = one generated history (60-300 Put/Delete/Compact/Sync/Close+Open calls, thresholds giving a rollover every few puts and " +
			"real compactions, collision-engineered keys, value sizes straddling 512-byte sectors, records larger than a segment) executed on the " +
			"call-logging CrashFS with a live read-back after every call; then EVERY boundary between logged file-system calls and EVERY 512-aligned " +
			"tear of every data write is materialised as a crash image (exhaustive within the history), the image is opened with the real Open " +
			"(recovery) and the full read-back (Items/Count/Get/Has/GetAppend of every key ever used) must equal the reference state before or after " +
			"the API call in flight. evaluations = images recovered (after de-duplicating byte-identical images with the same admissible set); " +
			"distinct_nontrivial = distinct image fingerprints that differ from the image at the start and at the end of the API call in flight " +
			"(i.e. genuinely mid-operation images).",
		Assumptions: []string{
			"process-crash model of the property: completed FS calls fully applied, the call in flight not applied or (data write) applied up to a 512-aligned file offset, directory operations atomic",
			"CrashFS models fs.FileSystem faithfully (cross-validated against fs.OS by C17)",
			"hash seed pinned (also for the seed drawn by recovery)",
		},
		Cases: func(tier string) int {
			if tier == "thorough" {
				return 1600
			}
			return 32
		},
		Run: runC03,
		Require: []string{"cp_put/write.psg", "cp_put/write.pix", "cp_del/write.psg", "cp_compact/remove.psg", "cp_compact/write.psg",
			"cp_close/write.pmt", "cp_close/remove", "cp_open/create", "torn_images", "cp_put/truncate.pix", "cp_put/create.psg", "failed_segment_writes"},
		Exhaustive: func(tier string, stats map[string]int64) bool { return false },
	})
}

// enumProcess enumerates all process-crash images of a history and judges each with judge(ai, label, image).
// It returns the number of images judged.
func enumProcess(c *core.Ctx, h *core.History, fromBoundary int, judge func(ai int, label string, im crashfs.Image, opDesc string) bool) {
	enumProcessSel(c, h, fromBoundary, nil, judge)
}

// enumProcessSel is enumProcess with a selector: sel(ai, n) returns 0 to skip boundary n, 1 to judge the
// boundary image only, 2 to judge the boundary image and all tears of FS call n.
func enumProcessSel(c *core.Ctx, h *core.History, fromBoundary int, sel func(ai, n int) int, judge func(ai int, label string, im crashfs.Image, opDesc string) bool) {
	ops := h.FS.Log
	r := crashfs.NewProcReplayer(h.Base, ops)
	seen := map[uint64]bool{}
	// fingerprints of boundary images at interval starts/ends are "trivial"
	for n := fromBoundary; n <= len(ops); n++ {
		r.Advance(n)
		ai := h.IntervalAt(n)
		iv := h.Iv[ai]
		mode := 2
		if sel != nil {
			mode = sel(ai, n)
		}
		if mode == 0 {
			continue
		}
		im := r.Image(0)
		fp := core.ImageHash(im)
		key := fp ^ uint64(ai)*0x9e3779b97f4a7c15
		opDesc := "end of history"
		if n < len(ops) {
			opDesc = fsOpDesc(ops[n])
		}
		mid := n > iv.Start && n < iv.End
		if n < len(ops) {
			// class of the crash point (covered even if the image is byte-identical to one already judged)
			c.Stat(fmt.Sprintf("cp_%s/%s%s", iv.Kind, ops[n].Kind, extOf(ops[n])), 1)
		}
		if !seen[key] {
			seen[key] = true
			if mid {
				c.Distinct("img", fp)
			} else {
				c.Trivial(1)
			}
			if !judge(ai, fmt.Sprintf("before fs call %d (%s)", n, opDesc), im, opDesc) {
				return
			}
		}
		if n < len(ops) && mode == 2 {
			for _, t := range crashfs.TearPoints(ops[n]) {
				tim := r.Image(t)
				tfp := core.ImageHash(tim)
				tkey := tfp ^ uint64(ai)*0x9e3779b97f4a7c15
				if seen[tkey] {
					continue
				}
				seen[tkey] = true
				c.Distinct("img", tfp)
				c.Stat("torn_images", 1)
				if !judge(ai, fmt.Sprintf("inside fs call %d (%s) torn after %d bytes", n, opDesc, t), tim, opDesc) {
					return
				}
			}
		}
	}
}

func extOf(op crashfs.Op) string {
	if op.Name == "" {
		return ""
	}
	if filepath.Base(op.Name) == "lock" {
		return ""
	}
	return filepath.Ext(op.Name)
}

func runC03(c *core.Ctx) {
	rng := c.Rng
	seed := rng.Uint32()
	core.PinSeed(seed)
	ks := crashKeys(rng, seed)
	cfg := smallCrashConfig(rng, c.Case%4 == 3)
	p := histParams{NOps: 60 + rng.Intn(240), Reopen: true, LiveCheck: true, SyncPct: 6, CompactPct: 10}
	if c.Case%2 == 1 {
		// every other history: a few Put/Delete calls have one segment write fail (as a whole, or after a prefix). Such a
		// call returns an error and counts as "in flight" for its own key until an acknowledged call settles it; the
		// handle keeps being used, and every acknowledged call after it is judged at every later crash point.
		core.HBFaults = true
		defer func() { core.HBFaults = false }()
		p.FaultyWritePct = 5
	}
	valIdx := 0
	hb, err := genHistory(c, rng, nil, nil, cfg, ks, p, &valIdx)
	if err != nil {
		data := map[string]interface{}{"hash_seed": seed, "config": cfg, "keys": ks.HexKeys(100)}
		if hb != nil {
			data["history"] = histData(hb.H, len(hb.H.Iv))
		}
		c.Violation("live-mismatch", "history failed before any crash was injected: "+err.Error(), data)
		return
	}
	h := hb.Finish()
	c.Stat("histories", 1)
	c.Stat("api_calls", int64(len(h.Iv)))
	c.Stat("fs_calls", int64(len(h.FS.Log)))
	enumProcess(c, h, 0, func(ai int, label string, im crashfs.Image, opDesc string) bool {
		iv := h.Iv[ai]
		c.Eval(1)
		st, _, _, err := core.RecoverImage(im, cfg, ks.Keys)
		var sig, detail string
		if err != nil {
			sig = "recover-error/" + iv.Kind
			detail = fmt.Sprintf("crash %s during '%s': %v", label, iv.Desc, err)
		} else if !core.InAdm(st, iv.Adm) {
			sig = "recovered-state/" + iv.Kind
			detail = fmt.Sprintf("crash %s during '%s': recovered state is neither the state before nor after the call: vs before: %s", label, iv.Desc, st.Diff(iv.Adm[0], 3))
			if len(iv.Adm) > 1 {
				detail += " | vs after: " + st.Diff(iv.Adm[1], 3)
			}
		}
		if sig != "" {
			c.Violation(sig, detail, map[string]interface{}{"hash_seed": seed, "config": cfg, "keys": ks.HexKeys(100),
				"history": histData(h, ai), "crash_point": label, "image": core.DescribeImage(im)})
			return c.Violations() < 3
		}
		return true
	})
	if c.Case < 2 {
		c.Sample(map[string]interface{}{"hash_seed": seed, "config": cfg, "nkeys": len(ks.Keys), "api_calls": len(h.Iv),
			"fs_calls": len(h.FS.Log), "first_calls": histData(h, 15)})
	}
}
