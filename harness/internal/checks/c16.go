package checks

import (
	"bytes"
	"fmt"
	"hash/fnv"
	"sort"

	"github.com/akrylysov/pogreb"

	"pvh/internal/core"
	"pvh/internal/keyeng"
)

func init() {
	core.Register(&core.Check{
		ID:    "C16",
		Level: "exploration",
		Rule: "one case = one file system (Mem/CrashFS/OS/OSMMap in rotation) x a batch of (key length, value length, segment capacity) combinations; key lengths " +
			"from {0,1,2,3,4,5,255,256,505..520,4090..4102,65534,65535}, value lengths from {0..16,494..530,4080..4110,65535,65536,1 MiB-1,1 MiB,1 MiB+1} " +
			"(thorough: also exactly 512 MiB and 512 MiB+1), segment capacity chosen so that the record exactly fits an empty segment / exceeds a whole segment by " +
			"one byte / the second record overflows the remaining space by one byte / default. Each combination: two keys of that length are put, one is " +
			"overwritten; byte-exact read-back live, from a crash image (recovery) and after a clean restart; empty values must read back non-nil; then over-limit " +
			"Puts (key 65536, 65537, 70000, 131071, 131072+n; thorough: value 512 MiB+1) must fail and leave Count, every read and every file byte unchanged; " +
			"Get/Has/Delete with keys of 65536+n bytes ENGINEERED to have the same hash (hence the same truncated uint16 length) as a stored n-byte key must " +
			"behave as for an absent key. evaluations = combinations run; distinct_nontrivial = distinct (key length, value length, capacity mode, fs).",
		Assumptions: []string{
			"hash seed pinned so that over-long probe keys can be engineered to collide with stored keys",
			"directory fingerprint = FNV of all file names and bytes read through the FileSystem interface",
		},
		Cases: func(tier string) int {
			if tier == "thorough" {
				return 640
			}
			return 48
		},
		Run:     runC16,
		Require: []string{"combos", "overlong_probes_same_hash", "overlimit_puts_rejected", "empty_values", "mode_exact_fit", "mode_exceeds_segment", "mode_second_overflows", "recoveries", "clean_restarts", "fs_mem", "fs_os", "fs_osmmap", "fs_crash"},
		Timeout: nil,
	})
}

var c16KeyLens = []int{0, 1, 2, 3, 4, 5, 255, 256, 505, 506, 507, 508, 509, 510, 511, 512, 513, 514, 515, 516, 517, 518, 519, 520,
	4090, 4091, 4092, 4093, 4094, 4095, 4096, 4097, 4098, 4099, 4100, 4101, 4102, 65534, 65535}

func c16ValLens() []int {
	var v []int
	for i := 0; i <= 16; i++ {
		v = append(v, i)
	}
	for i := 494; i <= 530; i++ {
		v = append(v, i)
	}
	for i := 4080; i <= 4110; i++ {
		v = append(v, i)
	}
	v = append(v, 65535, 65536, 1<<20-1, 1<<20, 1<<20+1)
	return v
}

func dirFingerprint(env *core.Env) (uint64, error) {
	files, err := env.ReadDirFiles(env.Dir)
	if err != nil {
		return 0, err
	}
	var names []string
	for n := range files {
		names = append(names, n)
	}
	sort.Strings(names)
	h := fnv.New64a()
	for _, n := range names {
		fmt.Fprintf(h, "%s\x00%d\x00", n, len(files[n]))
		h.Write(files[n])
	}
	return h.Sum64(), nil
}

func fillKey(rngByte byte, n int, tag byte) []byte {
	k := make([]byte, n)
	for i := range k {
		k[i] = byte(i*7) ^ rngByte ^ tag
	}
	if n > 0 {
		k[0] = tag
	}
	return k
}

// verifyExact reads every expected pair back byte-exactly.
func verifyExact(db *pogreb.DB, want map[string][]byte, absent [][]byte) string {
	if int(db.Count()) != len(want) {
		return fmt.Sprintf("Count()=%d, want %d", db.Count(), len(want))
	}
	for k, v := range want {
		got, err := db.Get([]byte(k))
		if err != nil {
			return fmt.Sprintf("Get(key of %d bytes): %v", len(k), err)
		}
		if got == nil {
			return fmt.Sprintf("Get(key of %d bytes) = nil, want a value of %d bytes", len(k), len(v))
		}
		if !bytes.Equal(got, v) {
			return fmt.Sprintf("Get(key of %d bytes) returned %d bytes that differ from the %d bytes written", len(k), len(got), len(v))
		}
		has, err := db.Has([]byte(k))
		if err != nil || !has {
			return fmt.Sprintf("Has(key of %d bytes) = %v, %v", len(k), has, err)
		}
	}
	for _, k := range absent {
		got, err := db.Get(k)
		if err != nil || got != nil {
			return fmt.Sprintf("Get(absent key of %d bytes) = %d bytes, %v", len(k), len(got), err)
		}
		if has, err := db.Has(k); err != nil || has {
			return fmt.Sprintf("Has(absent key of %d bytes) = %v, %v", len(k), has, err)
		}
	}
	n := 0
	it := db.Items()
	for {
		k, v, err := it.Next()
		if err == pogreb.ErrIterationDone {
			break
		}
		if err != nil {
			return "Items: " + err.Error()
		}
		w, ok := want[string(k)]
		if !ok || !bytes.Equal(w, v) {
			return fmt.Sprintf("Items returned a pair (key %d bytes, value %d bytes) that was not written", len(k), len(v))
		}
		n++
	}
	if n != len(want) {
		return fmt.Sprintf("Items returned %d pairs, want %d", n, len(want))
	}
	return ""
}

// c16MaxValue: a value of exactly MaxValueLength (512 MiB) must be accepted and read back byte-exactly right away
// (before anything else is written to the segment), one byte more must be rejected without touching the files.
// The value is all zeroes except sparse markers, so that the cost is dominated by a single copy.
func c16MaxValue(c *core.Ctx) {
	core.PinSeed(99)
	fsk := core.FSOSMMap
	env := core.NewEnv(fsk)
	defer env.Cleanup()
	db, err := env.Open(core.Config{})
	if err != nil {
		c.Violation("open-error", err.Error(), nil)
		return
	}
	defer db.Close()
	c.Stat("max_value_512MiB", 1)
	c.Stat("combos", 1)
	c.Eval(1)
	c.Distinct("maxvalue", fsk)
	fail := func(sig, detail string) {
		c.Violation(sig, detail+"; key length 3, value length 512 MiB (the limit), fs "+string(fsk), map[string]interface{}{"fs": fsk})
	}
	if err := db.Put([]byte("pre"), []byte("x")); err != nil {
		fail("put-error", err.Error())
		return
	}
	val := make([]byte, 512<<20)
	for i := 0; i < len(val); i += 1 << 20 {
		val[i] = byte(i>>20) | 1
	}
	val[len(val)-1] = 0xEE
	if err := db.Put([]byte("max"), val); err != nil {
		fail("put-error", "Put of a value of exactly the maximum length failed: "+err.Error())
		return
	}
	got, err := db.Get([]byte("max"))
	if err != nil || len(got) != len(val) {
		fail("roundtrip-live", fmt.Sprintf("Get right after Put returned %d bytes, err %v", len(got), err))
		return
	}
	for i := 0; i < len(val); i += 1 << 20 {
		if got[i] != val[i] {
			fail("roundtrip-live", fmt.Sprintf("byte %d differs", i))
			return
		}
	}
	if got[len(got)-1] != 0xEE {
		fail("roundtrip-live", "last byte differs")
		return
	}
	got = nil
	fp, _ := env.List(env.Dir), 0
	big := make([]byte, 512<<20+1) // never touched
	if err := db.Put([]byte("big"), big); err == nil {
		fail("overlimit-put-accepted", "Put with a value of 512 MiB + 1 returned nil")
		return
	}
	c.Stat("overlimit_puts_rejected", 1)
	after := env.List(env.Dir)
	for n, sz := range fp {
		if after[n] != sz {
			fail("overlimit-changed-files", "rejected Put changed the size of "+n)
			return
		}
	}
	if n := db.Count(); n != 2 {
		fail("roundtrip-live", fmt.Sprintf("Count()=%d, want 2", n))
	}
}

func runC16(c *core.Ctx) {
	if c.Thorough() && c.Case == 7 {
		c16MaxValue(c) // too heavy for the quick tier (CRC and copies of 512 MiB)
		return
	}
	rng := c.Rng
	seed := rng.Uint32()
	core.PinSeed(seed)
	kinds := []core.FSKind{core.FSMem, core.FSCrash, core.FSOS, core.FSOSMMap}
	fsk := kinds[c.Case%4]
	valLens := c16ValLens()
	ncombos := 8
	var samples []interface{}
	for combo := 0; combo < ncombos; combo++ {
		// rotate deterministically through the boundary lists so that all lengths are hit across cases, plus PRNG picks
		kl := c16KeyLens[(c.Case*ncombos+combo)%len(c16KeyLens)]
		vl := valLens[(c.Case*ncombos+combo*7+rng.Intn(3))%len(valLens)]
		if combo%4 == 3 {
			kl = c16KeyLens[rng.Intn(len(c16KeyLens))]
			vl = valLens[rng.Intn(len(valLens))]
		}
		if c.Case%16 == 3 && combo == 1 {
			vl = 40 << 20 // far larger than anything written before: the file grows by tens of MiB in one write
			kl = 7
			c.Stat("values_40MiB", 1)
		}
		if c.Thorough() && c.Case%160 == 7 && combo == 0 {
			vl = 512 << 20 // exactly the limit
			kl = 5
			c.Stat("max_value_512MiB", 1)
		}
		mode := []string{"exact_fit", "exceeds_segment", "second_overflows", "default"}[(c.Case+combo)%4]
		recSize := uint32(10 + kl + vl)
		cfg := core.Config{MinSeg: 1 << 30, Frag: 0.5}
		switch mode {
		case "exact_fit":
			cfg.MaxSeg = 512 + recSize
		case "exceeds_segment":
			cfg.MaxSeg = 512 + recSize - 1
		case "second_overflows":
			cfg.MaxSeg = 512 + 2*recSize - 1
		}
		if vl >= 32<<20 {
			cfg.MaxSeg = 0
			mode = "default"
		}
		c.Stat("mode_"+mode, 1)
		c.Stat("combos", 1)
		c.Stat("fs_"+string(fsk), 1)
		c.Eval(1)
		c.Distinct(kl, vl, mode, fsk)
		desc := fmt.Sprintf("key length %d, value length %d, segment capacity mode %s (maxSegmentSize=%d), fs %s", kl, vl, mode, cfg.MaxSeg, fsk)
		fail := func(sig, detail string) {
			c.Violation(sig, detail+"; "+desc, map[string]interface{}{"hash_seed": seed, "key_len": kl, "value_len": vl, "mode": mode, "config": cfg, "fs": fsk})
		}
		func() {
			var env *core.Env
			if vl >= 64<<20 && (fsk == core.FSOS || fsk == core.FSOSMMap) {
				env = core.NewEnvIn(fsk, core.DiskScratch())
			} else {
				env = core.NewEnv(fsk)
			}
			defer func() { env.Cleanup() }()
			db, err := env.Open(cfg)
			if err != nil {
				fail("open-error", err.Error())
				return
			}
			closed := false
			defer func() {
				if !closed {
					db.Close()
				}
			}()
			b := byte(rng.Intn(256))
			k1 := fillKey(b, kl, 'A')
			k2 := fillKey(b, kl, 'B')
			if kl == 0 {
				k1 = []byte("y") // the empty key is written by every combination anyway
				k2 = []byte("z")
			}
			v1 := core.MakeVal(combo*3+1, vl)
			v2 := core.MakeVal(combo*3+2, vl)
			v3 := core.MakeVal(combo*3+3, vl)
			want := map[string][]byte{}
			put := func(k, v []byte) bool {
				if err := db.Put(k, v); err != nil {
					fail("put-error", fmt.Sprintf("Put within limits failed: %v", err))
					return false
				}
				want[string(k)] = v
				// read it back at once, before anything else is written
				if got, err := db.Get(k); err != nil || !bytes.Equal(got, v) || got == nil {
					fail("roundtrip-live", fmt.Sprintf("Get right after Put returned %d bytes (nil=%v), err %v; %d bytes were written", len(got), got == nil, err, len(v)))
					return false
				}
				return true
			}
			// an empty key with an empty value first (its record header is six zero bytes), then the records under test
			// the record under test goes into the still empty first segment; then an empty key with an empty value
			// (its record header is six zero bytes) followed by further records
			if !put(k1, v1) || !put([]byte{}, []byte{}) {
				return
			}
			c.Stat("empty_key_empty_value", 1)
			if !put(k2, v2) || !put([]byte("small"), []byte{}) || !put(k1, v3) {
				return
			}
			c.Stat("empty_values", 1)
			absent := [][]byte{[]byte("absent"), fillKey(b, kl+1, 'A')}
			if kl > 1 {
				absent = append(absent, k1[:kl-1])
			}
			if d := verifyExact(db, want, absent); d != "" {
				fail("roundtrip-live", "live read-back: "+d)
				return
			}
			// over-long probes engineered to collide with k1 in hash and truncated length
			// ... and with the stored EMPTY key (truncated length 0: seeded/R7-C16-m2 skipped the key comparison there)
			type probeTarget struct {
				key   []byte
				extra int
			}
			targets := []probeTarget{{k1, 65536}, {k1, 131072}, {[]byte{}, 65536}, {[]byte{}, 131072}}
			for _, tg := range targets {
				k1, kl, extra := tg.key, len(tg.key), tg.extra
				L := extra + kl
				tail := make([]byte, L%4)
				prefix := make([]byte, L-4-len(tail))
				rng.Read(prefix)
				copy(prefix, k1) // the over-long key even starts with the stored key
				long := keyeng.Solve(seed, prefix, tail, keyeng.Sum(seed, k1))
				if len(long) != L || uint16(len(long)) != uint16(kl) {
					panic("harness: bad over-long key")
				}
				c.Stat("overlong_probes_same_hash", 1)
				if kl == 0 {
					c.Stat("overlong_probes_colliding_with_empty_key", 1)
				}
				fpBefore, _ := dirFingerprint(env)
				if v, err := db.Get(long); err != nil || v != nil {
					fail("overlong-get-matched", fmt.Sprintf("Get with a %d-byte key (same hash and same 16-bit length as a stored %d-byte key) returned %d bytes, err %v", L, kl, len(v), err))
					return
				}
				if v, err := db.GetAppend(long, []byte("x")); err != nil || v != nil {
					fail("overlong-get-matched", fmt.Sprintf("GetAppend with a %d-byte key returned %d bytes, err %v", L, len(v), err))
					return
				}
				if h, err := db.Has(long); err != nil || h {
					fail("overlong-has-matched", fmt.Sprintf("Has with a %d-byte key (same hash and same 16-bit length as a stored %d-byte key) = %v, %v", L, kl, h, err))
					return
				}
				if err := db.Delete(long); err != nil {
					fail("overlong-delete-error", fmt.Sprintf("Delete with a %d-byte key: %v", L, err))
					return
				}
				if err := db.Put(long, []byte("v")); err == nil {
					fail("overlimit-put-accepted", fmt.Sprintf("Put with a %d-byte key returned nil", L))
					return
				}
				c.Stat("overlimit_puts_rejected", 1)
				if d := verifyExact(db, want, absent); d != "" {
					fail("overlong-changed-contents", "after over-long key operations: "+d)
					return
				}
				if fpAfter, _ := dirFingerprint(env); fpAfter != fpBefore {
					fail("overlong-changed-files", "over-long key operations changed the files of the database")
					return
				}
			}
			for _, L := range []int{65536, 65537, 70000, 131071} {
				fpBefore, _ := dirFingerprint(env)
				if err := db.Put(make([]byte, L), []byte("v")); err == nil {
					fail("overlimit-put-accepted", fmt.Sprintf("Put with a %d-byte key returned nil", L))
					return
				}
				c.Stat("overlimit_puts_rejected", 1)
				if fpAfter, _ := dirFingerprint(env); fpAfter != fpBefore {
					fail("overlimit-changed-files", fmt.Sprintf("rejected Put with a %d-byte key changed the files of the database", L))
					return
				}
			}
			if c.Thorough() && c.Case%40 == 3 && combo == 0 {
				big := make([]byte, 512<<20+1) // never touched
				fpBefore, _ := dirFingerprint(env)
				if err := db.Put([]byte("big"), big); err == nil {
					fail("overlimit-put-accepted", "Put with a value of 512 MiB + 1 returned nil")
					return
				}
				c.Stat("overlimit_value_rejected", 1)
				if fpAfter, _ := dirFingerprint(env); fpAfter != fpBefore {
					fail("overlimit-changed-files", "rejected Put with an over-limit value changed the files")
					return
				}
			}
			if d := verifyExact(db, want, absent); d != "" {
				fail("overlimit-changed-contents", "after rejected Puts: "+d)
				return
			}
			// recovery from a crash image (directory copy while open)
			cenv := core.NewEnv(fsk)
			if vl >= 64<<20 && (fsk == core.FSOS || fsk == core.FSOSMMap) {
				cenv = core.NewEnvIn(fsk, core.DiskScratch())
			}
			defer cenv.Cleanup()
			if err := env.CopyDirTo(cenv); err != nil {
				c.Violation("setup-error", "copying directory: "+err.Error(), nil)
				return
			}
			rec0 := core.Recoveries()
			rdb, err := cenv.Open(cfg)
			if err != nil {
				fail("recover-error", fmt.Sprintf("recovery of a crash image failed: %v", err))
				return
			}
			if core.Recoveries() == rec0 {
				rdb.Close()
				fail("no-recovery", "crash image opened without recovery")
				return
			}
			c.Stat("recoveries", 1)
			d := verifyExact(rdb, want, absent)
			// sessions after the recovery stay correct: write, clean close, reopen
			if d == "" {
				if err := rdb.Put([]byte("after-recovery"), v2); err != nil {
					d = "Put after recovery: " + err.Error()
				}
			}
			rdb.Close()
			if d != "" {
				fail("roundtrip-recovery", "after recovery: "+d)
				return
			}
			// clean restart
			if err := db.Close(); err != nil {
				closed = true
				fail("close-error", err.Error())
				return
			}
			closed = true
			db2, err := env.Open(cfg)
			if err != nil {
				fail("reopen-error", err.Error())
				return
			}
			c.Stat("clean_restarts", 1)
			d = verifyExact(db2, want, absent)
			if d == "" {
				// writes after the restart, then a crash image: the new values must win. First a small record (it fits
				// wherever the log continues after the restart), then the record under test again.
				nv := core.MakeVal(999, 9)
				if err := db2.Put([]byte("small"), nv); err != nil {
					d = "Put after restart: " + err.Error()
				}
				want["small"] = nv
				if d == "" && !bytes.Equal(want[string(k1)], v1) {
					if err := db2.Put(k1, v1); err != nil {
						d = "Put after restart: " + err.Error()
					}
					want[string(k1)] = v1
				}
			}
			if d == "" {
				c2 := core.NewEnv(fsk)
				if vl >= 64<<20 && (fsk == core.FSOS || fsk == core.FSOSMMap) {
					c2 = core.NewEnvIn(fsk, core.DiskScratch())
				}
				if err := env.CopyDirTo(c2); err == nil {
					if r2, err := c2.Open(cfg); err != nil {
						d = "recovery after restart failed: " + err.Error()
					} else {
						d = verifyExact(r2, want, absent)
						if d != "" {
							d = "after restart + write + recovery: " + d
						}
						r2.Close()
					}
				}
				c2.Cleanup()
			}
			db2.Close()
			if d != "" {
				fail("roundtrip-restart", d)
				return
			}
		}()
		if c.Violations() >= 3 {
			return
		}
		if c.Case == 0 && len(samples) < 4 {
			samples = append(samples, desc)
		}
	}
	if c.Case == 0 {
		c.Sample(samples)
	}
}
