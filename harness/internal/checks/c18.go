package checks

import (
	"encoding/base64"
	"fmt"
	"path/filepath"
	"strconv"
	"strings"

	"pvh/internal/core"
	"pvh/internal/crashfs"
	"pvh/internal/decoder"
)

var goldenCache []*Golden

func goldens() []*Golden {
	if goldenCache == nil {
		g, err := LoadGoldens(filepath.Join(core.VerifDir(), "golden"))
		if err != nil {
			panic("golden corpus: " + err.Error())
		}
		goldenCache = g
	}
	return goldenCache
}

func init() {
	core.Register(&core.Check{
		ID:    "C18",
		Level: "exploration",
		Rule: "backward: every directory of the golden corpus (/verif/golden, 24 directories written by the pinned version + hook commits only: empty, single segment, " +
			"index growth over 5 levels, long overflow chains with a free list, rollover over 17-20 segments, compaction with reused ids, deletes, long keys/values; " +
			"each cleanly closed, copied while open, and closed+lock+torn tail) is installed on OS, OSMMap, Mem and CrashFS and opened by the current code: a clean " +
			"one must open without recovery, an unclean one with recovery, contents (Items/Count/Get/Has of every key) must equal the recorded expectation, the " +
			"index walk must be consistent, and a further session (writes, clean restart) must stay consistent. forward: generated histories run by the current " +
			"code; at every checkpoint (after Sync while open, after Close) each segment file must be accepted record for record by the independent decoder up to " +
			"its last byte (header signature+version 2 in 512 bytes, record framing, CRC32), every file name must be exactly %05d-%d.psg with unique sequence " +
			"ids that increase with creation order, index files must carry the same header, and the decoder's replay of all segments in sequence order must " +
			"equal the reference. evaluations = golden opens + forward checkpoints; distinct_nontrivial = distinct (golden, fs) pairs with keys + distinct " +
			"forward checkpoint fingerprints.",
		Assumptions: []string{
			"the golden corpus was written by the pinned build (commit 0e387fd + the add-only hook commits) and is committed under /verif/golden",
			"the independent decoder is the 'independent reader of the documented format'",
		},
		Cases: func(tier string) int {
			n := len(goldens())
			if tier == "thorough" {
				return n + 3000
			}
			return n + 72
		},
		Run:     runC18,
		Require: []string{"golden_opens", "golden_clean", "golden_unclean", "forward_checkpoints", "forward_records_decoded", "forward_multi_segment", "forward_after_compaction"},
	})
}

func runC18(c *core.Ctx) {
	gs := goldens()
	if c.Case < len(gs) {
		runC18Golden(c, gs[c.Case])
		return
	}
	runC18Forward(c)
}

func runC18Golden(c *core.Ctx, g *Golden) {
	want := g.State()
	var probe [][]byte
	for k := range want {
		probe = append(probe, []byte(k))
	}
	probe = append(probe, []byte("absent-key"), []byte("torn-key"))
	// seqShift: the same directory with every segment's sequence number (the part of the file name after the dash,
	// a 64-bit decimal in the documented naming) raised by a constant: what the pinned version would have written
	// after that many more rollovers. Order and everything else is unchanged, so the contents must be too
	// (seeded/R6-C18-m2: sequence number parsed with 16 bits).
	type variant struct {
		fsk      core.FSKind
		seqShift uint64
	}
	variants := []variant{{core.FSOS, 0}, {core.FSOSMMap, 0}, {core.FSMem, 0}, {core.FSCrash, 0},
		{core.FSCrash, 70000}, {core.FSMem, 1<<32 + 5}, {core.FSOS, 1<<63 + 11}}
	for _, v := range variants {
		fsk := v.fsk
		im := crashfs.Image{}
		for n, d := range g.Files {
			raw, err := base64.StdEncoding.DecodeString(d)
			if err != nil {
				panic(err)
			}
			im[filepath.Join("db", shiftSeq(n, v.seqShift))] = raw
		}
		if v.seqShift != 0 {
			c.Stat("golden_opens_shifted_sequence", 1)
		}
		fail := func(sig, detail string) {
			if v.seqShift != 0 {
				sig += "/seq-shift"
				detail = fmt.Sprintf("[segment sequence numbers raised by %d] %s", v.seqShift, detail)
			}
			c.Violation(sig+"/"+g.Name, fmt.Sprintf("golden %s (%s) on %s: %s", g.Name, g.Desc, fsk, detail), map[string]interface{}{"golden": g.Name, "fs": fsk, "seq_shift": v.seqShift})
		}
		env, err := installImage(fsk, im)
		if err != nil {
			c.Violation("setup-error", err.Error(), nil)
			return
		}
		func() {
			defer env.Cleanup()
			c.Eval(1)
			c.Stat("golden_opens", 1)
			if len(want) > 0 {
				c.Distinct(g.Name, fsk)
			} else {
				c.Trivial(1)
			}
			rec0 := core.Recoveries()
			core.UnpinSeed()
			db, err := env.Open(g.Config)
			if err != nil {
				fail("golden-open-failed", "Open failed: "+err.Error())
				return
			}
			defer func() {
				if db != nil {
					db.Close()
				}
			}()
			recovered := core.Recoveries() != rec0
			if g.Clean {
				c.Stat("golden_clean", 1)
				if recovered {
					fail("golden-clean-recovered", "a cleanly closed directory was opened with recovery")
					return
				}
			} else {
				c.Stat("golden_unclean", 1)
				if !recovered {
					fail("golden-unclean-not-recovered", "an unclean directory was opened without recovery")
					return
				}
			}
			st, err := core.Dump(db, probe)
			if err != nil {
				fail("golden-contents", err.Error())
				return
			}
			if !st.Equal(want) {
				fail("golden-contents", "contents differ from what the pinned version wrote: "+st.Diff(want, 4))
				return
			}
			if problems, _, _ := core.CheckIndex(db, env, want); len(problems) > 0 {
				fail("golden-index", "index walk: "+problems[0])
				return
			}
			// a further session on top of the old files
			ref := want.Clone()
			for i := 0; i < 40; i++ {
				k := []byte(fmt.Sprintf("new-%d", i))
				v := core.MakeVal(i, 10+i)
				if err := db.Put(k, v); err != nil {
					fail("golden-session", "Put: "+err.Error())
					return
				}
				ref[string(k)] = string(v)
				probe = append(probe, k)
			}
			n := 0
			for k := range want {
				if n%3 == 0 {
					if err := db.Delete([]byte(k)); err != nil {
						fail("golden-session", "Delete: "+err.Error())
						return
					}
					delete(ref, k)
				}
				n++
			}
			if _, err := db.Compact(); err != nil {
				fail("golden-session", "Compact: "+err.Error())
				return
			}
			if err := db.Close(); err != nil {
				db = nil
				fail("golden-session", "Close: "+err.Error())
				return
			}
			db, err = env.Open(g.Config)
			if err != nil {
				db = nil
				fail("golden-session", "reopen: "+err.Error())
				return
			}
			st, err = core.Dump(db, probe)
			if err != nil {
				fail("golden-session", err.Error())
				return
			}
			if !st.Equal(ref) {
				fail("golden-session", "after a further session and restart: "+st.Diff(ref, 4))
			}
		}()
	}
	if c.Case == 0 {
		c.Sample(map[string]interface{}{"golden": g.Name, "desc": g.Desc, "shape": g.Shape, "files": len(g.Files), "keys": len(want)})
	}
}

// shiftSeq renames NNNNN-S.psg / NNNNN-S.psg.pmt to NNNNN-(S+shift).psg[.pmt]; other names are returned unchanged.
func shiftSeq(name string, shift uint64) string {
	if shift == 0 {
		return name
	}
	rest := ""
	base := name
	if strings.HasSuffix(base, ".psg.pmt") {
		base, rest = strings.TrimSuffix(base, ".psg.pmt"), ".psg.pmt"
	} else if strings.HasSuffix(base, ".psg") {
		base, rest = strings.TrimSuffix(base, ".psg"), ".psg"
	} else {
		return name
	}
	i := strings.IndexByte(base, '-')
	if i < 0 {
		return name
	}
	seq, err := strconv.ParseUint(base[i+1:], 10, 64)
	if err != nil || seq > ^uint64(0)-shift {
		return name
	}
	return base[:i+1] + strconv.FormatUint(seq+shift, 10) + rest
}

// forwardCheckpoint validates all files of the directory with the independent decoder.
func forwardCheckpoint(c *core.Ctx, env *core.Env, ref core.State, when string, seqSeen map[uint64]string, maxSeq *uint64) string {
	files, err := env.ReadDirFiles(env.Dir)
	if err != nil {
		return "reading directory: " + err.Error()
	}
	segs := map[string][]byte{}
	cur := map[uint64]string{}
	for n, d := range files {
		switch {
		case strings.HasSuffix(n, ".psg"):
			segs[n] = d
			if !decoder.StrictSegmentName(n) {
				return fmt.Sprintf("segment file name %q is not %%05d-%%d.psg", n)
			}
			sn, _ := decoder.ParseSegmentName(n)
			if prev, ok := cur[sn.Seq]; ok {
				return fmt.Sprintf("sequence id %d used by two segment files: %s and %s", sn.Seq, prev, n)
			}
			cur[sn.Seq] = n
		case strings.HasSuffix(n, ".pix"):
			if err := decoder.CheckHeader(d); err != nil {
				return fmt.Sprintf("index file %s: %v", n, err)
			}
		}
	}
	// sequence ids order the log: a segment created since the previous checkpoint must have a larger sequence
	// id than every segment that existed then and still exists
	for seq, n := range cur {
		if seqSeen[seq] == n {
			continue // old segment
		}
		for oseq, on := range cur {
			if seqSeen[oseq] == on && oseq >= seq {
				return fmt.Sprintf("%s: new segment %s has sequence id %d, not larger than that of the older segment %s", when, n, seq, on)
			}
		}
	}
	for k := range seqSeen {
		delete(seqSeen, k)
	}
	for seq, n := range cur {
		seqSeen[seq] = n
		if seq > *maxSeq {
			*maxSeq = seq
		}
	}
	total := 0
	for n, d := range segs {
		recs, end, err := decoder.ValidPrefix(d)
		if err != nil {
			return fmt.Sprintf("%s: segment %s: %v", when, n, err)
		}
		if end != int64(len(d)) {
			return fmt.Sprintf("%s: segment %s: the independent decoder accepts %d records up to offset %d but the file has %d bytes (record at %d is not a valid version-2 record)", when, n, len(recs), end, len(d), end)
		}
		total += len(recs)
	}
	st, _, err := decoder.Replay(segs)
	if err != nil {
		return err.Error()
	}
	got := core.State{}
	for k, v := range st {
		got[k] = string(v)
	}
	if !got.Equal(ref) {
		return fmt.Sprintf("%s: replaying all segments in sequence order with the independent decoder gives other contents than the database: %s", when, got.Diff(ref, 4))
	}
	c.Stat("forward_checkpoints", 1)
	c.Stat("forward_records_decoded", int64(total))
	if len(segs) > 1 {
		c.Stat("forward_multi_segment", 1)
	}
	c.Eval(1)
	var names []string
	for n, d := range segs {
		names = append(names, fmt.Sprintf("%s:%d", n, len(d)))
	}
	c.Distinct("fwd", when, fmt.Sprint(names), len(ref))
	return ""
}

func runC18Forward(c *core.Ctx) {
	rng := c.Rng
	seed := rng.Uint32()
	core.PinSeed(seed)
	ks := core.GenKeys(rng, seed, core.KeySpec{SameHashGroups: 1, SameHashSize: 3, Chain16: rng.Intn(40), Plain: 20 + rng.Intn(100), LongKeys: rng.Intn(2)})
	cfg := core.RandConfig(rng)
	fsk := []core.FSKind{core.FSCrash, core.FSOS, core.FSMem, core.FSOSMMap}[c.Case%4]
	ops := core.GenOps(rng, ks, core.ProgSpec{NOps: 150 + rng.Intn(500), CompactPct: 50, Reopen: true})
	env := core.NewEnv(fsk)
	defer func() { env.Cleanup() }()
	x, err := core.NewExec(c, env, cfg, ks.Keys)
	if err != nil {
		c.Violation("open-error", err.Error(), nil)
		return
	}
	defer func() {
		if x.DB != nil {
			x.DB.Close()
		}
	}()
	seqSeen := map[uint64]string{}
	var maxSeq uint64
	fail := func(i int, sig, detail string) {
		c.Violation(sig, detail, progData(seed, fsk, cfg, ks, ops, i+1))
	}
	compacted := false
	for i, op := range ops {
		if sig, detail := x.Do(op); sig != "" {
			fail(i, sig, detail)
			return
		}
		if op.K == core.OpCompact {
			compacted = true
		}
		if op.K == core.OpSync || op.K == core.OpReopen || op.K == core.OpCompact || i%97 == 96 {
			if d := forwardCheckpoint(c, x.Env, x.Ref, "after "+op.K.String(), seqSeen, &maxSeq); d != "" {
				fail(i, "forward-format", d)
				return
			}
			if compacted {
				c.Stat("forward_after_compaction", 1)
			}
		}
	}
	if err := x.DB.Close(); err != nil {
		fail(len(ops), "close-error", err.Error())
		return
	}
	x.DB = nil
	if d := forwardCheckpoint(c, x.Env, x.Ref, "after final close", seqSeen, &maxSeq); d != "" {
		fail(len(ops), "forward-format", d)
	}
}
