package checks

import (
	"fmt"
	"path/filepath"
	"strings"

	"pvh/internal/core"
	"pvh/internal/crashfs"
)

func init() {
	core.Register(&core.Check{
		ID:    "C04",
		Level: "fault_enumeration",
		Rule: "one case = a tree of crash epochs of depth up to 4. Epoch 1 is a generated history on CrashFS (as C03). From its crash images all torn-write " +
			"images of the newest segment and a PRNG sample of the others are selected; for each selected image: (a) it is recovered twice and both " +
			"recoveries must give the same contents; (b) the recovering Open itself is run on CrashFS and EVERY boundary and tear inside it is crashed " +
			"and recovered again (admissible set unchanged); (c) the session continues after the recovery with 8-40 acknowledged calls (Put/Delete/Compact " +
			"with writers in its windows/Sync/clean Close+Open) checked live, and its crash points (every boundary in the quick tier's sampled stride, " +
			"all tears) are recovered against the reference carried over from the state observed after the recovery; (d) images of that session are " +
			"selected again (next epoch). evaluations = recoveries judged; distinct_nontrivial = distinct fingerprints of mid-operation crash images " +
			"(image differs from the one at the start and at the end of the call in flight) over all epochs; boundary images between calls are trivial. " +
			"observed.images_in_sessions_after_recovery / crash_inside_recovery count the images that only this property reaches.",
		Assumptions: []string{
			"process-crash model of C03, applied repeatedly",
			"the state observed (read back) after a recovery is acknowledged from then on and becomes the reference of the next epoch",
		},
		Cases: func(tier string) int {
			if tier == "thorough" {
				return 1500
			}
			return 32
		},
		Run:     runC04,
		Require: []string{"epochs_depth2", "epochs_depth3", "epochs_depth4", "crash_inside_recovery", "recoveries_with_truncation", "double_recoveries", "epoch_from_torn_image", "compactions_after_recovery"},
	})
}

type c04state struct {
	c      *core.Ctx
	seed   uint32
	cfg    core.Config
	ks     *core.KeySet
	valIdx int
	quick  bool
}

type selImage struct {
	im    crashfs.Image
	adm   []core.State
	torn  bool
	label string
}

func (s *c04state) violation(sig, detail string, path []string, extra map[string]interface{}) {
	data := map[string]interface{}{"hash_seed": s.seed, "config": s.cfg, "keys": s.ks.HexKeys(100), "epoch_path": path}
	for k, v := range extra {
		data[k] = v
	}
	s.c.Violation(sig, detail, data)
}

// selectImages walks all crash images of h (from boundary `from`), judges every one with stride, and returns a selection.
func (s *c04state) enumAndSelect(h *core.History, from, stride int, depth int, path []string, maxSel int) []selImage {
	c := s.c
	var sel []selImage
	var tornSel []selImage
	newest := ""
	cnt := 0
	enumProcessSel(c, h, from, func(ai, n int) int {
		cnt++
		if stride > 1 && cnt%stride != 0 {
			return 0
		}
		return 2
	}, func(ai int, label string, im crashfs.Image, opDesc string) bool {
		iv := h.Iv[ai]
		c.Eval(1)
		if depth > 1 {
			c.Stat("images_in_sessions_after_recovery", 1)
		}
		st, _, _, err := core.RecoverImage(im, s.cfg, s.ks.Keys)
		if err != nil {
			s.violation(fmt.Sprintf("recover-error/depth%d/%s", depth, iv.Kind), fmt.Sprintf("epoch %d: crash %s during '%s': %v", depth, label, iv.Desc, err), path,
				map[string]interface{}{"history": histData(h, ai), "image": core.DescribeImage(im)})
			return c.Violations() < 3
		}
		if !core.InAdm(st, iv.Adm) {
			d := fmt.Sprintf("epoch %d: crash %s during '%s': recovered state is neither the state before nor after the call in flight (reference carried over from earlier epochs): vs before: %s", depth, label, iv.Desc, st.Diff(iv.Adm[0], 3))
			if len(iv.Adm) > 1 {
				d += " | vs after: " + st.Diff(iv.Adm[1], 3)
			}
			s.violation(fmt.Sprintf("recovered-state/depth%d/%s", depth, iv.Kind), d, path, map[string]interface{}{"history": histData(h, ai), "image": core.DescribeImage(im)})
			return c.Violations() < 3
		}
		// selection
		if maxSel == 0 {
			return true
		}
		torn := strings.Contains(label, "torn after") && strings.Contains(opDesc, ".psg")
		si := selImage{im: im, adm: iv.Adm, torn: torn, label: fmt.Sprintf("depth %d: %s during '%s'", depth, label, iv.Desc)}
		if torn {
			// keep torn images of the newest segment preferentially
			name := strings.Fields(strings.TrimPrefix(opDesc, "write "))[0]
			if name >= newest {
				newest = name
			}
			if len(tornSel) < maxSel*2 {
				tornSel = append(tornSel, si)
			} else if c.Rng.Intn(4) == 0 {
				tornSel[c.Rng.Intn(len(tornSel))] = si
			}
		} else if c.Rng.Intn(60) == 0 {
			if len(sel) < maxSel {
				sel = append(sel, si)
			} else {
				sel[c.Rng.Intn(len(sel))] = si
			}
		}
		return true
	})
	// at most half of the selection from torn images
	c.Rng.Shuffle(len(tornSel), func(i, j int) { tornSel[i], tornSel[j] = tornSel[j], tornSel[i] })
	if len(tornSel) > (maxSel+1)/2 {
		tornSel = tornSel[:(maxSel+1)/2]
	}
	out := append(tornSel, sel...)
	if len(out) > maxSel {
		out = out[:maxSel]
	}
	return out
}

func (s *c04state) epoch(depth int, si selImage, path []string) {
	c := s.c
	if c.Violations() > 0 {
		return
	}
	path = append(append([]string(nil), path...), si.label)
	c.Stat(fmt.Sprintf("epochs_depth%d", depth), 1)
	if si.torn {
		c.Stat("epoch_from_torn_image", 1)
	}
	// (a) recover twice from the same image
	st1, _, _, err1 := core.RecoverImage(si.im, s.cfg, s.ks.Keys)
	st2, _, _, err2 := core.RecoverImage(si.im, s.cfg, s.ks.Keys)
	c.Eval(2)
	c.Stat("double_recoveries", 1)
	if err1 != nil || err2 != nil {
		s.violation("recover-error/twice", fmt.Sprintf("recovering the same image twice: %v / %v", err1, err2), path, nil)
		return
	}
	if !st1.Equal(st2) {
		s.violation("recovery-not-deterministic", "two recoveries of the same image disagree: "+st1.Diff(st2, 4), path, nil)
		return
	}
	// (b)+(c): run the recovering Open and a further session on CrashFS
	rec0 := core.Recoveries()
	p := histParams{NOps: 10 + c.Rng.Intn(40), Reopen: true, Writers: true, LiveCheck: true, SyncPct: 4, CompactPct: 18, WindowBudget: 4, Scenarios: depth == 2}
	if c.Case%2 == 1 {
		// as in C03: one failing record append now and then, here in sessions that started with a recovery
		core.HBFaults = true
		p.FaultyWritePct = 5
	}
	hb, err := genHistory(c, c.Rng, si.im, si.adm, s.cfg, s.ks, p, &s.valIdx)
	core.HBFaults = false
	if err != nil {
		data := map[string]interface{}{}
		if hb != nil {
			data["history"] = histData(hb.H, len(hb.H.Iv))
		}
		s.violation(fmt.Sprintf("session-after-recovery/depth%d", depth), "session that started with a recovery failed: "+err.Error(), path, data)
		return
	}
	if core.Recoveries() == rec0 {
		c.Note("epoch image without lock file (clean) at %s", si.label)
	}
	h := hb.Finish()
	// did the recovery truncate something?
	for n := h.Iv[0].Start; n < h.Iv[0].End; n++ {
		if op := h.FS.Log[n]; op.Kind == crashfs.OpTruncate && filepath.Ext(op.Name) == ".psg" {
			if int(op.Size) < len(si.im[op.Name]) {
				c.Stat("recoveries_with_truncation", 1)
				break
			}
		}
	}
	for _, iv := range h.Iv {
		if iv.Kind == "compact" && iv.End > iv.Start {
			c.Stat("compactions_after_recovery", 1)
			break
		}
	}
	// crash inside the recovering Open: exhaustive
	openEnd := h.Iv[0].End
	sub := &core.History{Base: h.Base, FS: &crashfs.FS{Log: h.FS.Log[:openEnd]}, Cfg: h.Cfg, Keys: h.Keys, Iv: h.Iv[:1], Writes: h.Writes, SyncStates: h.SyncStates}
	enumProcess(c, sub, 0, func(ai int, label string, im crashfs.Image, opDesc string) bool {
		c.Eval(1)
		c.Stat("crash_inside_recovery", 1)
		st, _, _, err := core.RecoverImage(im, s.cfg, s.ks.Keys)
		if err != nil {
			s.violation("recover-error/inside-recovery", fmt.Sprintf("crash %s inside the recovering Open: %v", label, err), path, map[string]interface{}{"image": core.DescribeImage(im)})
			return false
		}
		if !core.InAdm(st, si.adm) {
			s.violation("recovered-state/inside-recovery", fmt.Sprintf("crash %s inside the recovering Open: state after the second recovery is not admissible: %s", label, st.Diff(si.adm[0], 3)), path,
				map[string]interface{}{"image": core.DescribeImage(im)})
			return false
		}
		if !st.Equal(st1) {
			c.Stat("interrupted_recovery_changed_outcome", 1)
		}
		return true
	})
	if c.Violations() > 0 {
		return
	}
	// (c) crash points of the continued session
	stride := 1
	if s.quick {
		stride = 2
	}
	maxSel := 0
	switch depth {
	case 2:
		maxSel = 2
	case 3:
		maxSel = 1
	}
	next := s.enumAndSelect(h, openEnd, stride, depth, path, maxSel)
	for _, n := range next {
		s.epoch(depth+1, n, path)
	}
}

func runC04(c *core.Ctx) {
	rng := c.Rng
	seed := rng.Uint32()
	core.PinSeed(seed)
	s := &c04state{c: c, seed: seed, ks: crashKeys(rng, seed), cfg: smallCrashConfig(rng, c.Case%4 == 3), quick: !c.Thorough()}
	p := histParams{NOps: 40 + rng.Intn(80), Reopen: true, Writers: true, LiveCheck: true, SyncPct: 6, CompactPct: 10}
	hb, err := genHistory(c, rng, nil, nil, s.cfg, s.ks, p, &s.valIdx)
	if err != nil {
		c.Violation("live-mismatch", "epoch-1 history failed: "+err.Error(), map[string]interface{}{"hash_seed": seed, "config": s.cfg})
		return
	}
	h := hb.Finish()
	maxSel := 4
	if c.Thorough() {
		maxSel = 6
	}
	stride := 3
	sel := s.enumAndSelect(h, 0, stride, 1, nil, maxSel)
	for _, si := range sel {
		s.epoch(2, si, nil)
	}
	if c.Case < 2 {
		var labels []string
		for _, si := range sel {
			labels = append(labels, si.label)
		}
		c.Sample(map[string]interface{}{"hash_seed": seed, "config": s.cfg, "epoch1_calls": len(h.Iv), "selected_epoch2_images": labels})
	}
}
