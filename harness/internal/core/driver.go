package core

import (
	"bufio"
	"encoding/json"
	"fmt"
	"hash/fnv"
	"math/rand"
	"os"
	"os/exec"
	"path/filepath"
	"regexp"
	"runtime"
	"runtime/debug"
	"sort"
	"strconv"
	"strings"
	"sync"
	"syscall"
	"time"
)

// VerifDir is the root of the verification tree.
func VerifDir() string {
	if d := os.Getenv("PVH_VERIF_DIR"); d != "" {
		return d
	}
	return "/verif"
}

// Violation is one observed refutation of a property.
type Violation struct {
	Signature string      `json:"signature"` // stable identification of what fails (matched against known findings)
	Detail    string      `json:"detail"`
	Data      interface{} `json:"data,omitempty"` // everything needed to understand/replay
}

// CaseResult is what a child reports for one case.
type CaseResult struct {
	Case         int              `json:"case"`
	Evals        int64            `json:"evals"`
	Stats        map[string]int64 `json:"stats,omitempty"`
	Distinct     []string         `json:"distinct,omitempty"`
	Trivial      int64            `json:"trivial,omitempty"`
	Sample       interface{}      `json:"sample,omitempty"`
	Violations   []Violation      `json:"violations,omitempty"`
	Inconclusive []string         `json:"inconclusive,omitempty"`
	Notes        []string         `json:"notes,omitempty"`
	WallMS       int64            `json:"wall_ms"`
	AbortShard   bool             `json:"abort_shard,omitempty"`
}

// Ctx is handed to a check's Run function for one case.
type Ctx struct {
	ID     string
	Tier   string
	Seed   int64
	Case   int
	Rng    *rand.Rand
	Replay bool
	res    *CaseResult
	dist   map[uint64]struct{}
	nviol  int
}

func (c *Ctx) Thorough() bool { return c.Tier == "thorough" }

// Eval counts executed evaluations (images recovered, calls compared, schedules run...).
func (c *Ctx) Eval(n int64) { c.res.Evals += n }

// Stat adds to a named counter.
func (c *Ctx) Stat(name string, n int64) {
	if c.res.Stats == nil {
		c.res.Stats = map[string]int64{}
	}
	c.res.Stats[name] += n
}

// StatMax keeps the maximum of a named gauge (aggregated by max across cases when the name starts with "max_").
func (c *Ctx) StatMax(name string, n int64) {
	if c.res.Stats == nil {
		c.res.Stats = map[string]int64{}
	}
	if n > c.res.Stats[name] {
		c.res.Stats[name] = n
	}
}

// Distinct records a non-trivial item by what makes it different for this property.
func (c *Ctx) Distinct(parts ...interface{}) {
	h := fnv.New64a()
	fmt.Fprint(h, parts...)
	c.dist[h.Sum64()] = struct{}{}
}

// DistinctBytes records a non-trivial item identified by raw bytes.
func (c *Ctx) DistinctBytes(tag string, chunks ...[]byte) {
	h := fnv.New64a()
	h.Write([]byte(tag))
	for _, b := range chunks {
		h.Write([]byte{0xff})
		h.Write(b)
	}
	c.dist[h.Sum64()] = struct{}{}
}

// Trivial counts an evaluated item that is trivial by the check's rule.
func (c *Ctx) Trivial(n int64) { c.res.Trivial += n }

// Sample sets the sample written out for this case (first one wins).
func (c *Ctx) Sample(v interface{}) {
	if c.res.Sample == nil {
		c.res.Sample = v
	}
}

func (c *Ctx) Note(format string, a ...interface{}) {
	if len(c.res.Notes) < 20 {
		c.res.Notes = append(c.res.Notes, fmt.Sprintf(format, a...))
	}
}

// Violation records a violation (at most 8 per case are kept in full).
func (c *Ctx) Violation(signature, detail string, data interface{}) {
	c.nviol++
	if len(c.res.Violations) < 8 {
		c.res.Violations = append(c.res.Violations, Violation{Signature: signature, Detail: detail, Data: data})
	}
}

// Violations returns the number of violations recorded so far in this case.
func (c *Ctx) Violations() int { return c.nviol }

// AbortShard makes the child process stop after this case (used when goroutines of the case are stuck for good);
// the remaining cases of the shard are reported as not run.
func (c *Ctx) AbortShard() { c.res.AbortShard = true }

// Inconclusives returns what was recorded as undecidable in this case.
func (c *Ctx) Inconclusives() []string { return c.res.Inconclusive }

// Inconclusive records that something could not be decided.
func (c *Ctx) Inconclusive(format string, a ...interface{}) {
	c.res.Inconclusive = append(c.res.Inconclusive, fmt.Sprintf(format, a...))
}

// Check describes one property check.
type Check struct {
	ID          string
	Level       string // exploration | fault_enumeration
	Race        bool   // run under the race detector build
	Rule        string
	Assumptions []string
	Cases       func(tier string) int
	Run         func(c *Ctx)
	// Require lists counters that must be positive in the aggregate; otherwise the run observed none of
	// the events the check exists for and is reported as a harness error (exit 2), never as a pass.
	Require []string
	// MaxProcs limits the number of child processes (0 = number of CPUs, at most 16).
	MaxProcs int
	// Timeout is the watchdog per child process.
	Timeout func(tier string) time.Duration
	// Exhaustive reports whether the aggregate enumerated a finite space completely.
	Exhaustive func(tier string, stats map[string]int64) bool
	// RaceCase, if set, selects the cases that run in the race-detector build of the harness; the others run
	// in the plain build (the parent starts children of both binaries).
	RaceCase func(idx int) bool
	// PostChild lets a check inspect a child's log/race files (parent side). It may append violations.
	PostChild func(p *Parent, shard int, logPath string)
}

var registry = map[string]*Check{}

func Register(c *Check) { registry[c.ID] = c }

func Lookup(id string) *Check { return registry[id] }

func IDs() []string {
	var ids []string
	for id := range registry {
		ids = append(ids, id)
	}
	sort.Strings(ids)
	return ids
}

// CaseSeed derives the PRNG seed of a case.
func CaseSeed(id string, seed int64, idx int) int64 {
	h := fnv.New64a()
	fmt.Fprintf(h, "%s/%d/%d", id, seed, idx)
	return int64(h.Sum64() & 0x7fffffffffffffff)
}

var pogrebFrame = regexp.MustCompile(`github\.com/akrylysov/pogreb[./(]`)

// StackHasPogreb reports whether a stack trace contains a frame of the library under test.
func StackHasPogreb(stack string) bool { return pogrebFrame.MatchString(stack) }

// FirstPogrebFrame returns the first function of the library under test in a stack trace.
func FirstPogrebFrame(stack string) string {
	for _, line := range strings.Split(stack, "\n") {
		line = strings.TrimSpace(line)
		if strings.HasPrefix(line, "github.com/akrylysov/pogreb") {
			if i := strings.LastIndex(line, "("); i > 0 {
				line = line[:i]
			}
			return line
		}
	}
	return ""
}

// RunCase runs one case in-process, converting a panic with library frames into a violation.
func RunCase(ck *Check, tier string, seed int64, idx int, replay bool) (res *CaseResult) {
	res = &CaseResult{Case: idx}
	c := &Ctx{ID: ck.ID, Tier: tier, Seed: seed, Case: idx, Replay: replay, res: res, dist: map[uint64]struct{}{}}
	c.Rng = rand.New(rand.NewSource(CaseSeed(ck.ID, seed, idx)))
	start := time.Now()
	func() {
		defer func() {
			if r := recover(); r != nil {
				stack := string(debug.Stack())
				if StackHasPogreb(stack) {
					c.Violation("panic:"+FirstPogrebFrame(stack), fmt.Sprintf("panic: %v", r), map[string]interface{}{"stack": stack})
				} else {
					// A harness bug: do not turn it into a verdict.
					fmt.Fprintf(os.Stderr, "HARNESS PANIC case %d: %v\n%s\n", idx, r, stack)
					panic(r)
				}
			}
		}()
		ck.Run(c)
	}()
	res.WallMS = time.Since(start).Milliseconds()
	for h := range c.dist {
		res.Distinct = append(res.Distinct, strconv.FormatUint(h, 16))
	}
	if c.nviol > len(res.Violations) {
		res.Notes = append(res.Notes, fmt.Sprintf("%d violations in this case, first %d kept", c.nviol, len(res.Violations)))
	}
	return res
}

// ChildMain runs the cases of one shard and writes one JSON line per case.
func ChildMain(id, tier string, seed int64, shard, of int, outPath string, mode string) int {
	ck := Lookup(id)
	if ck == nil {
		fmt.Fprintln(os.Stderr, "unknown check", id)
		return 2
	}
	debug.SetPanicOnFault(true)
	out, err := os.Create(outPath)
	if err != nil {
		fmt.Fprintln(os.Stderr, err)
		return 2
	}
	defer out.Close()
	w := bufio.NewWriter(out)
	n := ck.Cases(tier)
	var mine []int
	for idx := 0; idx < n; idx++ {
		if mode != "all" && ck.RaceCase != nil && ck.RaceCase(idx) != (mode == "race") {
			continue
		}
		mine = append(mine, idx)
	}
	for pos := shard; pos < len(mine); pos += of {
		idx := mine[pos]
		fmt.Fprintf(w, "{\"start\":%d}\n", idx)
		w.Flush()
		fmt.Fprintf(os.Stderr, "CASE %d start\n", idx)
		res := RunCase(ck, tier, seed, idx, false)
		b, err := json.Marshal(res)
		if err != nil {
			fmt.Fprintln(os.Stderr, "marshal:", err)
			return 2
		}
		w.Write(b)
		w.WriteByte('\n')
		w.Flush()
		if res.AbortShard {
			fmt.Fprintf(w, "{\"done\":true}\n")
			w.Flush()
			out.Close()
			os.Exit(0)
		}
	}
	fmt.Fprintf(w, "{\"done\":true}\n")
	w.Flush()
	return 0
}

// KnownFinding is an entry of known_findings.json.
type KnownFinding struct {
	Kind      string `json:"kind"` // "finding" | "fixed"
	Property  string `json:"property"`
	Signature string `json:"signature,omitempty"` // regular expression matched against a violation signature
	Commit    string `json:"commit,omitempty"`
	What      string `json:"what"`
}

func loadKnownFindings() []KnownFinding {
	b, err := os.ReadFile(filepath.Join(VerifDir(), "known_findings.json"))
	if err != nil {
		return nil
	}
	var f struct {
		Entries []KnownFinding `json:"entries"`
	}
	if err := json.Unmarshal(b, &f); err != nil {
		fmt.Fprintln(os.Stderr, "known_findings.json:", err)
		os.Exit(2)
	}
	return f.Entries
}

// Parent aggregates the children of one check run.
type Parent struct {
	Check      *Check
	Tier       string
	Seed       int64
	WorkDir    string
	mu         sync.Mutex
	Evals      int64
	Trivial    int64
	Stats      map[string]int64
	Distinct   map[string]struct{}
	Samples    []interface{}
	Violations []caseViolation
	Inconcl    []string
	Notes      []string
	CasesDone  int
	HarnessErr []string
}

type caseViolation struct {
	Case int
	V    Violation
}

// AddViolation lets PostChild hooks report violations found in logs.
func (p *Parent) AddViolation(caseIdx int, v Violation) {
	p.mu.Lock()
	defer p.mu.Unlock()
	p.Violations = append(p.Violations, caseViolation{caseIdx, v})
}

func (p *Parent) AddStat(name string, n int64) {
	p.mu.Lock()
	defer p.mu.Unlock()
	p.Stats[name] += n
}

func (p *Parent) absorb(res *CaseResult) {
	p.mu.Lock()
	defer p.mu.Unlock()
	p.CasesDone++
	p.Evals += res.Evals
	p.Trivial += res.Trivial
	for k, v := range res.Stats {
		if strings.HasPrefix(k, "max_") {
			if v > p.Stats[k] {
				p.Stats[k] = v
			}
		} else {
			p.Stats[k] += v
		}
	}
	for _, d := range res.Distinct {
		p.Distinct[d] = struct{}{}
	}
	if res.Sample != nil && len(p.Samples) < 4 {
		p.Samples = append(p.Samples, map[string]interface{}{"case": res.Case, "sample": res.Sample})
	}
	for _, v := range res.Violations {
		p.Violations = append(p.Violations, caseViolation{res.Case, v})
	}
	for _, s := range res.Inconclusive {
		p.Inconcl = append(p.Inconcl, fmt.Sprintf("case %d: %s", res.Case, s))
	}
	for _, s := range res.Notes {
		if len(p.Notes) < 40 {
			p.Notes = append(p.Notes, fmt.Sprintf("case %d: %s", res.Case, s))
		}
	}
}

func tailFile(path string, max int) string {
	b, err := os.ReadFile(path)
	if err != nil {
		return ""
	}
	if len(b) > max {
		b = b[len(b)-max:]
	}
	return string(b)
}

func headFile(path string, max int) string {
	b, err := os.ReadFile(path)
	if err != nil {
		return ""
	}
	if len(b) > max {
		b = b[:max]
	}
	return string(b)
}

// crashExcerpt extracts the panic / fatal error part of a child log.
func crashExcerpt(log string) string {
	for _, marker := range []string{"fatal error:", "panic:", "unexpected fault address", "SIGSEGV", "SIGBUS", "checkptr"} {
		if i := strings.Index(log, marker); i >= 0 {
			s := log[i:]
			if len(s) > 6000 {
				s = s[:6000]
			}
			return s
		}
	}
	return ""
}

// ParentMain runs a check: spawns children, aggregates, prints verdict lines, writes evidence.
func ParentMain(id, tier string, seed int64, self string) int {
	ck := Lookup(id)
	if ck == nil {
		fmt.Fprintln(os.Stderr, "unknown check", id)
		return 2
	}
	start := time.Now()
	ncases := ck.Cases(tier)
	procs := runtime.NumCPU()
	if procs > 16 {
		procs = 16
	}
	if ck.MaxProcs > 0 && procs > ck.MaxProcs {
		procs = ck.MaxProcs
	}
	if procs > ncases {
		procs = ncases
	}
	workBase := filepath.Join(VerifDir(), "work")
	os.MkdirAll(workBase, 0755)
	work, err := os.MkdirTemp(workBase, id+"-")
	if err != nil {
		fmt.Fprintln(os.Stderr, err)
		return 2
	}
	keepWork := os.Getenv("PVH_KEEP_WORK") != ""
	defer func() {
		if !keepWork {
			os.RemoveAll(work)
		}
	}()
	// Scratch databases on real file systems: tmpfs when available (fsync is free there; the code paths under
	// test - pread/pwrite/mmap/ftruncate/flock - are the same), disk scratch is offered separately for big files.
	diskScratch := filepath.Join(work, "scratch")
	os.MkdirAll(diskScratch, 0755)
	scratch := diskScratch
	if st, err := os.Stat("/dev/shm"); err == nil && st.IsDir() {
		if d, err := os.MkdirTemp("/dev/shm", "pvh-"+id+"-"); err == nil {
			scratch = d
			defer os.RemoveAll(d)
		}
	}
	p := &Parent{Check: ck, Tier: tier, Seed: seed, WorkDir: work, Stats: map[string]int64{}, Distinct: map[string]struct{}{}}
	timeout := 12 * time.Minute
	if tier == "thorough" {
		timeout = 4 * time.Hour
	}
	if ck.Timeout != nil {
		timeout = ck.Timeout(tier)
	}
	var wg sync.WaitGroup
	type childSpec struct {
		bin, mode string
		shard, of int
	}
	var specs []childSpec
	if ck.RaceCase != nil {
		dir := filepath.Dir(self)
		nr, rr := 0, 0
		for idx := 0; idx < ncases; idx++ {
			if ck.RaceCase(idx) {
				rr++
			} else {
				nr++
			}
		}
		pn, pr := procs/2, procs-procs/2
		if pn > nr {
			pn = nr
		}
		if pr > rr {
			pr = rr
		}
		for i := 0; i < pn; i++ {
			specs = append(specs, childSpec{filepath.Join(dir, "pvh"), "norace", i, pn})
		}
		for i := 0; i < pr; i++ {
			specs = append(specs, childSpec{filepath.Join(dir, "pvh-race"), "race", i, pr})
		}
	} else {
		for i := 0; i < procs; i++ {
			specs = append(specs, childSpec{self, "all", i, procs})
		}
	}
	for i := range specs {
		wg.Add(1)
		go func(i int) {
			defer wg.Done()
			sp := specs[i]
			outPath := filepath.Join(work, fmt.Sprintf("shard-%d.jsonl", i))
			logPath := filepath.Join(work, fmt.Sprintf("child-%d.log", i))
			logf, _ := os.Create(logPath)
			cmd := exec.Command(sp.bin, "child", id, "--tier", tier, "--seed", strconv.FormatInt(seed, 10),
				"--shard", strconv.Itoa(sp.shard), "--of", strconv.Itoa(sp.of), "--out", outPath, "--mode", sp.mode)
			cmd.Stdout = logf
			cmd.Stderr = logf
			cmd.Env = append(os.Environ(), "PVH_SCRATCH="+scratch, "PVH_SCRATCH_DISK="+diskScratch, "TMPDIR="+scratch,
				"GORACE=halt_on_error=0 log_path="+filepath.Join(work, fmt.Sprintf("race-%d", i)),
				"GOTRACEBACK=all")
			cmd.SysProcAttr = &syscall.SysProcAttr{Setpgid: true}
			timedOut := false
			if err := cmd.Start(); err != nil {
				p.mu.Lock()
				p.HarnessErr = append(p.HarnessErr, "start child: "+err.Error())
				p.mu.Unlock()
				return
			}
			done := make(chan error, 1)
			go func() { done <- cmd.Wait() }()
			var werr error
			select {
			case werr = <-done:
			case <-time.After(timeout):
				timedOut = true
				syscall.Kill(-cmd.Process.Pid, syscall.SIGQUIT)
				select {
				case werr = <-done:
				case <-time.After(20 * time.Second):
					syscall.Kill(-cmd.Process.Pid, syscall.SIGKILL)
					werr = <-done
				}
			}
			logf.Close()
			// read results
			finished := false
			lastStart := -1
			resultSeen := map[int]bool{}
			if f, err := os.Open(outPath); err == nil {
				sc := bufio.NewScanner(f)
				sc.Buffer(make([]byte, 1<<20), 1<<30)
				for sc.Scan() {
					line := sc.Bytes()
					if len(line) == 0 {
						continue
					}
					if strings.HasPrefix(string(line), "{\"start\":") {
						var s struct{ Start int }
						json.Unmarshal(line, &s)
						lastStart = s.Start
						continue
					}
					if strings.HasPrefix(string(line), "{\"done\":") {
						finished = true
						continue
					}
					var res CaseResult
					if err := json.Unmarshal(line, &res); err != nil {
						p.mu.Lock()
						p.HarnessErr = append(p.HarnessErr, fmt.Sprintf("shard %d: bad result line: %v", i, err))
						p.mu.Unlock()
						continue
					}
					resultSeen[res.Case] = true
					p.absorb(&res)
				}
				f.Close()
			}
			if ck.PostChild != nil {
				ck.PostChild(p, i, logPath)
			}
			if !finished {
				log := tailFile(logPath, 1<<20)
				caseIdx := lastStart
				if resultSeen[lastStart] {
					caseIdx = -1
				}
				switch {
				case timedOut:
					p.mu.Lock()
					p.Inconcl = append(p.Inconcl, fmt.Sprintf("shard %d: watchdog (%v) fired in case %d; goroutine dump in %s", i, timeout, caseIdx, logPath))
					keepWork = true
					p.mu.Unlock()
				default:
					ex := crashExcerpt(log)
					if ex != "" && StackHasPogreb(ex) && !strings.Contains(ex, "HARNESS PANIC") && !strings.Contains(log, "HARNESS PANIC") {
						sig := "crash:" + strings.SplitN(ex, "\n", 2)[0]
						if fr := FirstPogrebFrame(ex); fr != "" {
							sig = "crash:" + fr
						}
						p.AddViolation(caseIdx, Violation{Signature: sig, Detail: "child process died: " + strings.SplitN(ex, "\n", 2)[0], Data: map[string]interface{}{"log_excerpt": ex, "exit": fmt.Sprint(werr)}})
					} else {
						p.mu.Lock()
						p.HarnessErr = append(p.HarnessErr, fmt.Sprintf("shard %d died in case %d (%v) without a library frame; log tail:\n%s", i, caseIdx, werr, tailFile(logPath, 4000)))
						keepWork = true
						p.mu.Unlock()
					}
				}
			}
		}(i)
	}
	wg.Wait()
	return p.finish(start, ncases, &keepWork)
}

func (p *Parent) finish(start time.Time, ncases int, keepWork *bool) int {
	ck := p.Check
	known := loadKnownFindings()
	var patterns []*regexp.Regexp
	var findings []KnownFinding
	for _, k := range known {
		if k.Kind == "finding" && k.Property == ck.ID {
			re, err := regexp.Compile(k.Signature)
			if err != nil {
				fmt.Fprintln(os.Stderr, "known_findings.json: bad signature regexp:", err)
				return 2
			}
			patterns = append(patterns, re)
			findings = append(findings, k)
		}
	}
	replayDir := filepath.Join(VerifDir(), "replay", ck.ID)
	knownHits := map[int]int{}
	newViol := 0
	var lines []string
	sort.SliceStable(p.Violations, func(i, j int) bool { return p.Violations[i].Case < p.Violations[j].Case })
	for n, cv := range p.Violations {
		matched := -1
		for i, re := range patterns {
			if re.MatchString(cv.V.Signature) {
				matched = i
				break
			}
		}
		if matched >= 0 {
			knownHits[matched]++
			continue
		}
		newViol++
		if newViol > 25 {
			continue
		}
		os.MkdirAll(replayDir, 0755)
		path := filepath.Join(replayDir, fmt.Sprintf("%s-seed%d-case%d-%d.json", p.Tier, p.Seed, cv.Case, n))
		b, _ := json.MarshalIndent(map[string]interface{}{
			"property": ck.ID, "tier": p.Tier, "seed": p.Seed, "case": cv.Case,
			"signature": cv.V.Signature, "detail": cv.V.Detail, "data": cv.V.Data,
		}, "", " ")
		os.WriteFile(path, b, 0644)
		lines = append(lines, fmt.Sprintf("VIOLATION property=%s replay=%s", ck.ID, path))
		fmt.Printf("  case %d: [%s] %s\n", cv.Case, cv.V.Signature, cv.V.Detail)
	}
	for i, n := range knownHits {
		fmt.Printf("KNOWN-FINDING: property=%s %s (signature /%s/, seen %d times in this run)\n", ck.ID, findings[i].What, findings[i].Signature, n)
	}
	for _, l := range lines {
		fmt.Println(l)
	}
	wall := time.Since(start).Seconds()
	// harness-level sanity
	exit := 0
	var problems []string
	problems = append(problems, p.HarnessErr...)
	if p.CasesDone < ncases && newViol == 0 && len(p.HarnessErr) == 0 && len(p.Inconcl) == 0 {
		problems = append(problems, fmt.Sprintf("only %d of %d cases reported", p.CasesDone, ncases))
	}
	for _, r := range ck.Require {
		if p.Stats[r] <= 0 {
			problems = append(problems, fmt.Sprintf("required event %q was never observed", r))
		}
	}
	if p.Evals == 0 {
		problems = append(problems, "no evaluation was performed")
	}
	exhaustive := false
	if ck.Exhaustive != nil {
		exhaustive = ck.Exhaustive(p.Tier, p.Stats)
	}
	cov := map[string]interface{}{
		"evaluations":         p.Evals,
		"distinct_nontrivial": len(p.Distinct),
		"trivial":             p.Trivial,
		"rule":                ck.Rule,
		"samples":             p.Samples,
		"cases":               p.CasesDone,
		"cases_planned":       ncases,
		"observed":            p.Stats,
		"exhaustive":          exhaustive,
		"inconclusive":        len(p.Inconcl),
		"known_finding_hits":  len(p.Violations) - newViol,
	}
	if len(p.Inconcl) > 0 {
		max := len(p.Inconcl)
		if max > 10 {
			max = 10
		}
		cov["inconclusive_details"] = p.Inconcl[:max]
	}
	if len(p.Notes) > 0 {
		cov["notes"] = p.Notes
	}
	if len(p.Samples) == 0 {
		cov["samples"] = []interface{}{}
	}
	ev := map[string]interface{}{
		"property_id": ck.ID,
		"tier":        p.Tier,
		"seed":        p.Seed,
		"level":       ck.Level,
		"coverage":    cov,
		"assumptions": ck.Assumptions,
		"wall_s":      wall,
		"violations":  newViol,
	}
	evDir := filepath.Join(VerifDir(), "evidence")
	os.MkdirAll(evDir, 0755)
	b, _ := json.MarshalIndent(ev, "", " ")
	if err := os.WriteFile(filepath.Join(evDir, ck.ID+".json"), append(b, '\n'), 0644); err != nil {
		problems = append(problems, "writing evidence: "+err.Error())
	}
	statKeys := make([]string, 0, len(p.Stats))
	for k := range p.Stats {
		statKeys = append(statKeys, k)
	}
	sort.Strings(statKeys)
	var sb strings.Builder
	for _, k := range statKeys {
		fmt.Fprintf(&sb, " %s=%d", k, p.Stats[k])
	}
	fmt.Printf("%s tier=%s seed=%d cases=%d/%d evaluations=%d distinct_nontrivial=%d trivial=%d inconclusive=%d violations=%d wall=%.1fs\n  observed:%s\n",
		ck.ID, p.Tier, p.Seed, p.CasesDone, ncases, p.Evals, len(p.Distinct), p.Trivial, len(p.Inconcl), newViol, wall, sb.String())
	for i, s := range p.Inconcl {
		if i < 10 {
			fmt.Println("  INCONCLUSIVE:", s)
		}
	}
	if newViol > 0 {
		return 1
	}
	if len(problems) > 0 {
		for _, s := range problems {
			fmt.Println("HARNESS-ERROR:", s)
		}
		*keepWork = true
		fmt.Println("  (work directory kept:", p.WorkDir+")")
		exit = 2
	}
	if exit == 0 && len(p.Inconcl) > 0 && p.CasesDone == 0 {
		fmt.Println("HARNESS-ERROR: every case was inconclusive")
		exit = 2
	}
	return exit
}

// ReplayMain re-runs the case recorded in a replay file, in-process.
func ReplayMain(id, path string) int {
	b, err := os.ReadFile(path)
	if err != nil {
		fmt.Fprintln(os.Stderr, err)
		return 2
	}
	var r struct {
		Property string
		Tier     string
		Seed     int64
		Case     int
	}
	if err := json.Unmarshal(b, &r); err != nil {
		fmt.Fprintln(os.Stderr, err)
		return 2
	}
	if id == "" {
		id = r.Property
	}
	ck := Lookup(id)
	if ck == nil {
		fmt.Fprintln(os.Stderr, "unknown check", id)
		return 2
	}
	if r.Case < 0 {
		fmt.Println("replay file records a process crash outside a case; re-run the check with the same seed")
		return 2
	}
	debug.SetPanicOnFault(true)
	res := RunCase(ck, r.Tier, r.Seed, r.Case, true)
	out, _ := json.MarshalIndent(res.Violations, "", " ")
	fmt.Printf("replayed %s tier=%s seed=%d case=%d: %d violations\n%s\n", id, r.Tier, r.Seed, r.Case, len(res.Violations), out)
	if len(res.Violations) > 0 {
		fmt.Printf("VIOLATION property=%s replay=%s\n", id, path)
		return 1
	}
	return 0
}
