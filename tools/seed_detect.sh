#!/bin/bash
# tools/seed_detect.sh <mutation dir> <worktree> <ID> [tier]: applies the change in the scratch worktree and runs check <ID> against it.
D="$1"; WT="$2"; ID="$3"; TIER="${4:-quick}"
cd "$WT" || exit 2
git checkout -q -- . ; git clean -fdq
git checkout -q --detach "$(git -C /repo rev-parse HEAD)"
git apply "$D/patch.rebased.diff" || { echo "DETECT $D $ID apply=FAIL"; exit 1; }
OUT="$D/detect_${ID}_${TIER}.txt"
/verif/tools/check_against.sh "$WT" "$ID" "$TIER" > "$OUT" 2>&1
RC=$?
git checkout -q -- .; git clean -fdq
SIG=$(grep -m1 -o '^  case [-0-9]*: \[[^]]*\]' "$OUT" | sed 's/^  //')
WALL=$(grep -o 'wall=[0-9.]*s' "$OUT" | tail -1)
echo "DETECT $(echo $D | sed 's#/tmp/seeded/##') check=$ID tier=$TIER exit=$RC $WALL $SIG"
