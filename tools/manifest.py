#!/usr/bin/env python3
"""Generates /verif/MANIFEST.json from the table below and validates it against the schema."""
import json, os, subprocess, sys
here = os.path.dirname(os.path.dirname(os.path.abspath(__file__)))
props = [json.loads(l) for l in open(os.path.join(here, 'properties.jsonl'))]

hook_commits = subprocess.run(['git', '-C', '/repo', 'log', '--format=%H %s', '--grep=^verif hooks:'],
                              capture_output=True, text=True).stdout.strip().splitlines()

# id -> (category, technique, text, note, design_ref)
checks = {}
def add(id, cat, tech, text, note, ref):
    checks[id] = dict(cat=cat, tech=tech, text=text, note=note, ref=ref)

exec(open(os.path.join(here, 'tools', 'manifest_table.py')).read())

m = {
    "version": 1,
    "setup_cmd": "./setup.sh",
    "hooks": {
        "guard": "verif",
        "enable": "go build -tags verif (the harness module replaces github.com/akrylysov/pogreb with /repo, so every ./check rebuilds /repo's working tree with the tag on)",
        "baseline_off_cmd": "cd /repo && GOFLAGS=-mod=mod GOPROXY=off GOSUMDB=off GOTOOLCHAIN=local go test -json -vet=off -count=1 -timeout 25m ./...",
        "source_commits": [l.split()[0] for l in hook_commits],
        "add_only": True,
    },
    "engines": [{
        "name": "pvh", "path": "harness/",
        "serves_properties": sorted(checks),
        "kind_free_text": "Go harness (module pvh, replace pogreb => /repo, build tag verif): workload generators with hash-collision key engineering, reference-model monitors, crash/power-loss image enumeration over a call-logging file system, porcupine history checking, race detector runs, schedule exploration of the lock file protocol; parent/child process driver that writes evidence/<id>.json",
    }],
    "checks": [],
    "not_applicable": [],
    "notes": "All checks: ./check <ID> [--tier quick|thorough] [--seed N]; VERIF_SEED / VERIF_TIER are honoured. Exit 0 held on everything explored, 1 VIOLATION, 2 harness error/inconclusive (never a verdict). Known findings and fixed defects: known_findings.json.",
}
for p in props:
    id = p['id']
    if id in checks:
        c = checks[id]
        m["checks"].append({
            "property_id": id,
            "quick_cmd": f"./check {id} --tier quick",
            "thorough_cmd": f"./check {id} --tier thorough",
            "evidence_file": f"evidence/{id}.json",
            "replay_cmd_template": f"./check {id} --replay {{path}}",
            "engine": "pvh",
            "level_claimed": {"category": c['cat'], "text": c['text'], "design_ref": c['ref']},
            "level_note": c['note'],
            "technique": c['tech'],
        })
    else:
        m["not_applicable"].append({"property_id": id, "reason": "check not built yet in this session (planned: runtime monitor per DESIGN.md section 4); nothing is claimed for it"})
if not m["not_applicable"]:
    del m["not_applicable"]
out = os.path.join(here, 'MANIFEST.json')
json.dump(m, open(out, 'w'), indent=1)
open(out, 'a').write('\n')
try:
    import jsonschema
    jsonschema.validate(m, json.load(open('/root/.vp/MANIFEST.schema.json')))
    print("MANIFEST.json valid;", len(m["checks"]), "checks")
except ImportError:
    print("jsonschema not available; not validated")
