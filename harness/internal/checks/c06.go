package checks

import (
	"fmt"
	"math/rand"
	"sort"

	"pvh/internal/core"
	"pvh/internal/crashfs"
)

func init() {
	core.Register(&core.Check{
		ID:    "C06",
		Level: "fault_enumeration",
		Rule: "one case = one generated history on the call-logging CrashFS (Put/Delete/Compact with writers in its windows/Sync/Close+Open; " +
			"explicit-Sync mode and sync-after-every-write mode alternate; rollover every few puts; compaction constantly eligible), then at EVERY " +
			"boundary between logged file-system calls a family of power-loss images is materialised: minimal (no unsynced operation survives), maximal, " +
			"for every inode with unsynced operations 'only this inode loses them' and 'only this inode keeps them', and 3 PRNG images with per-inode " +
			"random surviving prefixes and 512-aligned tears; each image is opened with the real Open and every key must hold its value as of the last " +
			"completed Sync (or last returned Put/Delete in sync-every-write mode) or a value written / deletion made after it. In explicit mode 30% of the Sync calls have their fsync fail (fault injection): such a Sync must return an error and " +
			"only a later Sync that returns nil counts as completed. For sampled images the " +
			"session continues (second epoch: recover, more writes, Sync) and is enumerated again. evaluations = images recovered after de-duplication; " +
			"distinct_nontrivial = distinct image fingerprints in which at least one unsynced operation was dropped (images equal to the process-crash image are trivial).",
		Assumptions: []string{
			"power-loss model of the property: directory operations durable and ordered; file data/length volatile until Sync on that file; in-order surviving prefix, last write cut at a 512-aligned offset",
			"fs.File.Sync is fsync (fs.OS: os.File.Sync)",
			"CrashFS models fs.FileSystem faithfully (cross-validated against fs.OS by C17)",
		},
		Cases: func(tier string) int {
			if tier == "thorough" {
				return 800
			}
			return 32
		},
		Run:     runC06,
		Require: []string{"images_dropping_unsynced", "pl_compact", "pl_put", "pl_sync", "second_epochs", "rollover_then_sync", "mode_syncwrites", "mode_explicit", "syncs_with_failing_fsync", "sync_retries_after_failure"},
	})
}

type powerJudge func(ai int, label string, im crashfs.Image) bool

// enumPower enumerates power-loss images at every `stride`-th boundary from `from`.
func enumPower(c *core.Ctx, rng *rand.Rand, h *core.History, from, stride int, judge powerJudge) {
	ops := h.FS.Log
	r := crashfs.NewPowerReplayer(h.Base, ops)
	seen := map[uint64]bool{}
	for n := from; n <= len(ops); n += stride {
		r.Advance(n)
		ai := h.IntervalAt(n)
		iv := h.Iv[ai]
		c.Stat("pl_"+iv.Kind, 1)
		pend := r.Pending()
		var inos []int
		for ino := range pend {
			inos = append(inos, ino)
		}
		sort.Ints(inos)
		maxFP := uint64(0)
		emit := func(label string, keep func(ino int, p []crashfs.Op) (int, int)) bool {
			im := r.Image(keep)
			fp := core.ImageHash(im)
			if label == "maximal" {
				maxFP = fp
			}
			key := fp ^ uint64(ai)*0x9e3779b97f4a7c15
			if seen[key] {
				return true
			}
			seen[key] = true
			if label != "maximal" && fp != maxFP {
				c.Distinct("img", fp)
				c.Stat("images_dropping_unsynced", 1)
			} else {
				c.Trivial(1)
			}
			return judge(ai, fmt.Sprintf("power loss before fs call %d, image '%s' (unsynced ops per inode: %v)", n, label, pend), im)
		}
		if !emit("maximal", func(ino int, p []crashfs.Op) (int, int) { return len(p), -1 }) {
			return
		}
		if len(inos) == 0 {
			continue
		}
		if !emit("minimal", func(ino int, p []crashfs.Op) (int, int) { return 0, -1 }) {
			return
		}
		names := r.InoNames()
		for _, target := range inos {
			t := target
			if !emit("only "+names[t]+" loses", func(ino int, p []crashfs.Op) (int, int) {
				if ino == t {
					return 0, -1
				}
				return len(p), -1
			}) {
				return
			}
			if !emit("only "+names[t]+" keeps", func(ino int, p []crashfs.Op) (int, int) {
				if ino == t {
					return len(p), -1
				}
				return 0, -1
			}) {
				return
			}
		}
		for j := 0; j < 3; j++ {
			choice := map[int][2]int{}
			for _, ino := range inos {
				p := r.PendingOps(ino)
				k := rng.Intn(len(p) + 1)
				tear := -1
				if k < len(p) {
					if tp := crashfs.TearPoints(p[k]); len(tp) > 0 && rng.Intn(2) == 0 {
						tear = tp[rng.Intn(len(tp))]
						c.Stat("torn_power_images", 1)
					}
				}
				choice[ino] = [2]int{k, tear}
			}
			if !emit(fmt.Sprintf("random %v", choice), func(ino int, p []crashfs.Op) (int, int) {
				ch := choice[ino]
				return ch[0], ch[1]
			}) {
				return
			}
		}
	}
}

func runC06(c *core.Ctx) {
	rng := c.Rng
	seed := rng.Uint32()
	core.PinSeed(seed)
	ks := crashKeys(rng, seed)
	syncWrites := c.Case%2 == 1
	cfg := smallCrashConfig(rng, syncWrites)
	if syncWrites {
		c.Stat("mode_syncwrites", 1)
	} else {
		c.Stat("mode_explicit", 1)
	}
	p := histParams{NOps: 50 + rng.Intn(130), Reopen: c.Case%3 == 0, Writers: true, LiveCheck: true, SyncPct: 10, CompactPct: 10, FaultySyncPct: 30}
	core.HBFaults = true // fsync failures are injected into some explicit Sync calls
	defer func() { core.HBFaults = false }()
	valIdx := 0
	hb, err := genHistory(c, rng, nil, nil, cfg, ks, p, &valIdx)
	if err != nil {
		c.Violation("live-mismatch", "history failed before any fault was injected: "+err.Error(), map[string]interface{}{"hash_seed": seed, "config": cfg})
		return
	}
	h := hb.Finish()
	// count "rollover directly before Sync": a sync interval preceded by an interval that created a segment
	for i, iv := range h.Iv {
		if iv.Kind == "sync" && i > 0 {
			for n := h.Iv[i-1].Start; n < h.Iv[i-1].End; n++ {
				if op := h.FS.Log[n]; op.Kind == crashfs.OpCreate && extOf(op) == ".psg" {
					c.Stat("rollover_then_sync", 1)
				}
			}
		}
	}
	c.Stat("histories", 1)
	c.Stat("fs_calls", int64(len(h.FS.Log)))
	type cand struct {
		im crashfs.Image
		ai int
	}
	var epoch2 []cand
	judgeFor := func(h *core.History, epoch int) powerJudge {
		return func(ai int, label string, im crashfs.Image) bool {
			iv := h.Iv[ai]
			c.Eval(1)
			st, _, _, err := core.RecoverImage(im, cfg, ks.Keys)
			var sig, detail string
			if err != nil {
				sig = "recover-error/" + iv.Kind
				detail = fmt.Sprintf("epoch %d, %s during '%s': %v", epoch, label, iv.Desc, err)
			} else if d := h.PowerAdmissible(st, ai); d != "" {
				sig = "lost-synced/" + iv.Kind
				detail = fmt.Sprintf("epoch %d, %s during '%s': %s", epoch, label, iv.Desc, d)
			}
			if sig != "" {
				c.Violation(sig, detail, map[string]interface{}{"hash_seed": seed, "config": cfg, "keys": ks.HexKeys(100),
					"history": histData(h, ai), "image": core.DescribeImage(im)})
				return c.Violations() < 3
			}
			if epoch == 1 && len(epoch2) < 3 && rng.Intn(400) == 0 {
				epoch2 = append(epoch2, cand{im, ai})
			}
			return true
		}
	}
	enumPower(c, rng, h, 0, 1, judgeFor(h, 1))
	if c.Violations() > 0 {
		return
	}
	// second epoch: power loss -> recover -> continue -> Sync -> power loss again
	for _, cd := range epoch2 {
		p2 := histParams{NOps: 25 + rng.Intn(30), Writers: true, LiveCheck: true, SyncPct: 15, CompactPct: 12}
		hb2, err := genHistory(c, rng, cd.im, core.AnyState, cfg, ks, p2, &valIdx)
		if err != nil {
			c.Violation("epoch2-live-mismatch", "session after a power-loss recovery failed: "+err.Error(),
				map[string]interface{}{"hash_seed": seed, "config": cfg, "image": core.DescribeImage(cd.im)})
			return
		}
		c.Stat("second_epochs", 1)
		enumPower(c, rng, hb2.Finish(), 0, 2, judgeFor(hb2.H, 2))
		if c.Violations() > 0 {
			return
		}
	}
	if c.Case < 2 {
		c.Sample(map[string]interface{}{"hash_seed": seed, "config": cfg, "nkeys": len(ks.Keys), "api_calls": len(h.Iv),
			"fs_calls": len(h.FS.Log), "first_calls": histData(h, 15)})
	}
}
