package checks

import (
	"fmt"
	"os"
	"path/filepath"
	"strings"
	"sync"
	"sync/atomic"
	"time"

	"github.com/akrylysov/pogreb"
	pfs "github.com/akrylysov/pogreb/fs"

	"pvh/internal/core"
)

func init() {
	core.Register(&core.Check{
		ID:    "C13",
		Level: "exploration",
		Rule: "schedule exploration of the REAL Open/Close code and the real kernel flock: participants A (holds the database, then Close[, Open]), B (Open[, Close]), " +
			"C (Open) run as goroutines that block at the verif yield hooks placed after every system call of lock acquisition (stat, open, flock, retry) and " +
			"between unlink and close of the release; a depth-first search over 'which participant performs the next step' re-executes the scenario from scratch " +
			"for every schedule. Each successful Open is followed by a Put of a unique key. After every step the number of handles between 'Open returned nil' and " +
			"'Close called' must be <= 1; a failed Open must return the 'locked' error; after the schedule all handles are closed and a fresh Open must contain " +
			"every acknowledged Put. quick: the two 2-participant scenarios exhaustively + the subtrees assigned to the first cases of the 3-participant scenario; " +
			"thorough: 3-participant scenarios exhaustively (sharded by schedule prefix). On fs.Mem/CrashFS (no internal steps) the same scenarios run at call " +
			"granularity. Session chains: all 32 clean/unclean sequences of 5 sessions per file system: an unclean end (directory copied while open) must be " +
			"followed by recovery, a clean Close by none; a competing Open while a handle is open must fail with 'locked' and leave the directory listing " +
			"(names, sizes, bytes) unchanged; an unclean directory whose next Open fails at any one of its file-system calls (fault injection, CrashFS) must still be " +
			"recovered by the next successful Open. evaluations = schedules executed + sessions; distinct_nontrivial = distinct schedule choice strings with at least " +
			"one contended step + distinct (chain, fs).",
		Assumptions: []string{
			"flock conflicts between open file descriptions inside one process exactly as between processes (verified on this kernel in the design phase)",
			"yield hooks sit between system calls, never inside a critical section",
			"other platforms' lock code (windows, plan9) is not built here",
		},
		Cases: func(tier string) int {
			if tier == "thorough" {
				return 64 + 8
			}
			return 24 + 8
		},
		Run:     runC13,
		Require: []string{"schedules", "schedules_3p", "schedules_2p", "locked_errors", "contended_schedules", "retries_seen", "chains", "concurrent_open_rounds", "opens_failed_by_fault", "chain_recoveries", "chain_clean_opens", "competing_open_rejected"},
		Exhaustive: func(tier string, stats map[string]int64) bool {
			// the 2-participant scenarios and (thorough) A:Close || B:Open || C:Open are enumerated completely; the larger
			// 3-participant scenario is budgeted per subtree, so the run as a whole is not exhaustive
			return false
		},
	})
}

type c13part struct {
	id     int
	name   string
	script []string // "open", "close"
	resume chan struct{}
	db     *pogreb.DB
	closedDB *pogreb.DB
	holder bool
	done   bool
	at     string
	errs   []string
}

type c13run struct {
	parts    []*c13part
	parked   chan int
	cur      *c13part
	lockPath string
	trace    []string
	acked    map[string]string
	maxHold  int
	locked   int
	retries  int
	viol     string
	env      *core.Env
	cfg      core.Config
}

// runSchedule executes one schedule: choices[i] selects among the ready participants at step i (index into
// the sorted ready list); beyond len(choices) the first ready participant is taken. It returns the ready-set
// sizes per step and the choice string actually taken.
func c13Execute(fsk core.FSKind, scenario [][]string, choices []int) (readyCounts []int, taken []int, r *c13run, inconclusive string) {
	return c13ExecuteFrom(fsk, scenario, choices, true)
}

// c13ExecuteFrom: with holdFirst the first participant holds the database when the schedule starts; without,
// the directory starts cleanly closed (no lock file) and nobody holds it.
func c13ExecuteFrom(fsk core.FSKind, scenario [][]string, choices []int, holdFirst bool) (readyCounts []int, taken []int, r *c13run, inconclusive string) {
	env := core.NewEnv(fsk)
	defer env.Cleanup()
	cfg := core.Config{}
	r = &c13run{parked: make(chan int), acked: map[string]string{}, env: env, cfg: cfg}
	r.lockPath = filepath.Join(env.Dir, "lock")
	// A holds the database at the beginning
	db0, err := env.Open(cfg)
	if err != nil {
		return nil, nil, r, "setup open: " + err.Error()
	}
	if err := db0.Put([]byte("base"), []byte("v")); err != nil {
		return nil, nil, r, "setup put: " + err.Error()
	}
	r.acked["base"] = "v"
	if !holdFirst {
		if err := db0.Close(); err != nil {
			return nil, nil, r, "setup close: " + err.Error()
		}
	}
	for i, sc := range scenario {
		p := &c13part{id: i, name: string(rune('A' + i)), script: sc, resume: make(chan struct{})}
		if i == 0 && holdFirst {
			p.db = db0
			p.holder = true
		}
		r.parts = append(r.parts, p)
	}
	if fsk == core.FSOS || fsk == core.FSOSMMap {
		pfs.VerifSetYield(func(point, name string) {
			if name != r.lockPath || r.cur == nil {
				return
			}
			p := r.cur
			p.at = point
			if point == "lock:retry" {
				r.retries++
			}
			r.parked <- p.id
			<-p.resume
		})
		defer pfs.VerifSetYield(nil)
	}
	for _, p := range r.parts {
		go func(p *c13part) {
			<-p.resume
			for ai, act := range p.script {
				switch act {
				case "open":
					db, err := env.Open(cfg)
					if err != nil {
						if pogreb.VerifIsLocked(err) {
							r.locked++
						} else {
							p.errs = append(p.errs, "Open failed with an error other than 'locked': "+err.Error())
						}
					} else {
						p.db = db
						p.holder = true
						k := fmt.Sprintf("%s-%d", p.name, ai)
						if err := db.Put([]byte(k), []byte("x")); err != nil {
							p.errs = append(p.errs, "Put after Open: "+err.Error())
						} else {
							r.acked[k] = "x"
						}
					}
				case "close":
					if p.db != nil {
						p.holder = false // Close is called now
						if err := p.db.Close(); err != nil {
							p.errs = append(p.errs, "Close: "+err.Error())
						}
						p.closedDB = p.db
						p.db = nil
					}
				case "open2":
					// another Open by the same participant while its first handle is still open: must be refused
					if p.db != nil {
						db2, err := env.Open(cfg)
						if err == nil {
							p.errs = append(p.errs, "a second Open succeeded while this participant's first handle is still open: two open handles on one directory")
							db2.Close()
						} else if pogreb.VerifIsLocked(err) {
							r.locked++
						} else {
							p.errs = append(p.errs, "Open failed with an error other than 'locked': "+err.Error())
						}
					}
				case "close-again":
					// a second Close on a handle that was already closed: whatever it returns, it must not disturb others
					if p.closedDB != nil {
						p.closedDB.Close()
					}
				}
				if ai < len(p.script)-1 {
					p.at = "between-actions"
					r.parked <- p.id
					<-p.resume
				}
			}
			p.done = true
			p.at = "done"
			r.parked <- p.id
		}(p)
	}
	step := 0
	for {
		var ready []*c13part
		for _, p := range r.parts {
			if !p.done {
				ready = append(ready, p)
			}
		}
		if len(ready) == 0 {
			break
		}
		ch := 0
		if step < len(choices) {
			ch = choices[step]
		}
		if ch >= len(ready) {
			ch = len(ready) - 1
		}
		readyCounts = append(readyCounts, len(ready))
		taken = append(taken, ch)
		p := ready[ch]
		r.cur = p
		p.resume <- struct{}{}
		select {
		case <-r.parked:
		case <-time.After(20 * time.Second):
			return readyCounts, taken, r, fmt.Sprintf("step %d of participant %s did not reach its next yield point within 20 s", step, p.name)
		}
		r.cur = nil
		r.trace = append(r.trace, fmt.Sprintf("%s:%s", p.name, p.at))
		holders := 0
		var who []string
		for _, q := range r.parts {
			if q.holder {
				holders++
				who = append(who, q.name)
			}
		}
		if holders > r.maxHold {
			r.maxHold = holders
		}
		if holders > 1 && r.viol == "" {
			r.viol = fmt.Sprintf("after step %d two handles are open on the same directory (%s)", step, strings.Join(who, " and "))
		}
		step++
	}
	for _, p := range r.parts {
		for _, e := range p.errs {
			if r.viol == "" {
				r.viol = p.name + ": " + e
			}
		}
	}
	// close remaining handles, then verify contents
	for _, p := range r.parts {
		if p.db != nil {
			p.db.Close()
			p.db = nil
		}
	}
	if r.viol == "" {
		db, err := env.Open(cfg)
		if err != nil {
			r.viol = "Open after all handles were closed failed: " + err.Error()
		} else {
			for k, v := range r.acked {
				got, err := db.Get([]byte(k))
				if err != nil || string(got) != v {
					r.viol = fmt.Sprintf("after the schedule, acknowledged key %q reads %q (err %v)", k, got, err)
					break
				}
			}
			db.Close()
		}
	}
	return readyCounts, taken, r, ""
}

// nextPrefix computes the next schedule in DFS order, or nil when the space below `floor` is exhausted.
func c13Next(readyCounts, taken []int, floor int) []int {
	for i := len(taken) - 1; i >= floor; i-- {
		if taken[i]+1 < readyCounts[i] {
			n := append([]int(nil), taken[:i]...)
			return append(n, taken[i]+1)
		}
	}
	return nil
}

var c13Scenarios = map[string][][]string{
	"fresh-open-vs-open":             {{"open"}, {"open"}},
	"fresh-open-open-open":           {{"open"}, {"open"}, {"open"}},
	"2p-close-closeagain-vs-open":    {{"close", "close-again"}, {"open"}},
	"2p-close-closeagain-vs-open-open2": {{"close", "close-again"}, {"open", "open2"}},
	"2p-close-vs-open":       {{"close"}, {"open", "close"}},
	"2p-closeopen-vs-open":   {{"close", "open"}, {"open"}},
	"3p-close-open-open":     {{"close"}, {"open"}, {"open"}},
	"3p-closeopen-openclose": {{"close", "open"}, {"open", "close"}, {"open"}},
}

func runC13(c *core.Ctx) {
	ncases := 24
	if c.Thorough() {
		ncases = 64
	}
	if c.Case >= ncases {
		runC13Chains(c, c.Case-ncases)
		return
	}
	fsk := []core.FSKind{core.FSOS, core.FSOSMMap}[c.Case%2]
	explore := func(name string, fsk core.FSKind, prefixFilter func(idx int) bool, prefixLen int, budget int) {
		scenario := c13Scenarios[name]
		// enumerate prefixes of length prefixLen
		var prefixes [][]int
		if prefixLen == 0 {
			prefixes = [][]int{nil}
		} else {
			seenP := map[string]bool{}
			var choices []int
			for {
				rc, tk, _, inc := c13ExecuteFrom(fsk, scenario, choices, !strings.HasPrefix(name, "fresh"))
				if inc != "" {
					c.Inconclusive("%s", inc)
					return
				}
				l := prefixLen
				if l > len(tk) {
					l = len(tk)
				}
				key := fmt.Sprint(tk[:l])
				if !seenP[key] {
					seenP[key] = true
					prefixes = append(prefixes, append([]int(nil), tk[:l]...))
				}
				// next: branch only within the first prefixLen steps
				next := c13Next(rc[:l], tk[:l], 0)
				if next == nil {
					break
				}
				choices = next
			}
		}
		for pi, prefix := range prefixes {
			if prefixFilter != nil && !prefixFilter(pi) {
				continue
			}
			choices := append([]int(nil), prefix...)
			n := 0
			for {
				rc, tk, r, inc := c13ExecuteFrom(fsk, scenario, choices, !strings.HasPrefix(name, "fresh"))
				if inc != "" {
					c.Inconclusive("%s", inc)
					return
				}
				n++
				c.Eval(1)
				c.Stat("schedules", 1)
				if len(scenario) == 3 {
					c.Stat("schedules_3p", 1)
				} else {
					c.Stat("schedules_2p", 1)
				}
				c.Stat("locked_errors", int64(r.locked))
				c.Stat("retries_seen", int64(r.retries))
				c.StatMax("max_simultaneous_holders", int64(r.maxHold))
				if r.locked > 0 || r.retries > 0 {
					c.Stat("contended_schedules", 1)
					c.Distinct(name, fsk, strings.Join(r.trace, " "))
				} else {
					c.Trivial(1)
				}
				if r.viol != "" {
					c.Violation("lock-protocol/"+name, fmt.Sprintf("scenario %s on %s, schedule [%s]: %s", name, fsk, strings.Join(r.trace, " "), r.viol),
						map[string]interface{}{"scenario": name, "fs": fsk, "choices": tk, "trace": r.trace})
					return
				}
				if c.Case == 0 && n == 3 {
					c.Sample(map[string]interface{}{"scenario": name, "fs": fsk, "schedule": r.trace, "locked_errors": r.locked, "max_holders": r.maxHold})
				}
				next := c13Next(rc, tk, len(prefix))
				if next == nil {
					break
				}
				if budget > 0 && n >= budget {
					c.Stat("subtrees_truncated", 1)
					break
				}
				choices = next
			}
		}
	}
	// 2-participant scenarios: exhaustive, in the first two cases of each file system
	if c.Case < 8 {
		switch c.Case / 2 {
		case 0:
			explore("2p-close-vs-open", fsk, nil, 0, 0)
		case 1:
			explore("2p-closeopen-vs-open", fsk, nil, 0, 0)
		case 2:
			explore("fresh-open-vs-open", fsk, nil, 0, 0)
			explore("fresh-open-open-open", fsk, nil, 0, 400)
		default:
			explore("2p-close-closeagain-vs-open", fsk, nil, 0, 0)
			explore("2p-close-closeagain-vs-open-open2", fsk, nil, 0, 0)
		}
	}
	if c.Case < 4 {
		// call-granularity interleavings on the file systems without internal steps
		for _, k := range []core.FSKind{core.FSMem, core.FSCrash} {
			for name := range c13Scenarios {
				if k == core.FSMem && strings.Contains(name, "closeagain") {
					// fs.Mem handles of one file share their state (reference count): a second Close on a closed handle
					// closes the files of the other handle. That is a property of the test-only file system, not of the
					// lock protocol; the scenario runs on OS, OSMMap and CrashFS.
					continue
				}
				explore(name, k, nil, 0, 0)
			}
		}
	}
	// 3-participant scenarios: subtrees by prefix
	budget := 150
	name := "3p-close-open-open"
	if c.Thorough() {
		budget = 0 // exhaustive
		if c.Case%4 >= 2 {
			// the larger scenario has millions of schedules: a budget per assigned prefix subtree (reported as truncated)
			name = "3p-closeopen-openclose"
			budget = 2500
		}
	}
	shards := ncases / 2
	if c.Thorough() {
		shards = ncases / 4
	}
	my := c.Case / 2
	if c.Thorough() {
		my = c.Case / 4
	}
	explore(name, fsk, func(pi int) bool { return pi%shards == my }, 5, budget)
}

func listing(env *core.Env) string {
	files, _ := env.ReadDirFiles(env.Dir)
	var sb strings.Builder
	for _, n := range env.ListNames(env.Dir) {
		fmt.Fprintf(&sb, "%s:%d:%x;", n, len(files[n]), files[n])
	}
	return sb.String()
}

// c13FailedOpens: an unclean directory, then an Open that fails for a reason other than the lock (every file-system
// call of that Open is failed once), the process ends, and the next Open - the next successful one - must
// still detect the unclean shutdown, recover and show the contents.
func c13FailedOpens(c *core.Ctx) {
	cfg := core.Config{MaxSeg: 4096}
	env := core.NewEnv(core.FSCrash)
	db, err := env.Open(cfg)
	if err != nil {
		c.Violation("chain-open-error", err.Error(), nil)
		return
	}
	ref := core.State{}
	for i := 0; i < 200; i++ {
		k, v := fmt.Sprintf("k%d", i%120), fmt.Sprintf("v%d", i)
		if err := db.Put([]byte(k), []byte(v)); err != nil {
			c.Violation("chain-put", err.Error(), nil)
			return
		}
		ref[k] = v
	}
	unclean := env.Crash.Snapshot() // the process dies here: lock file present
	for k := 0; k < 300; k++ {
		e1 := core.CrashEnvFromImage(unclean)
		ffs := core.NewFaultFS(e1.FS)
		e1.FS = ffs
		ffs.Arm(k)
		db1, err := e1.Open(cfg)
		fired := ffs.Fired
		ffs.Disarm()
		if fired == "" {
			if db1 != nil {
				db1.Close()
			}
			break
		}
		c.Eval(1)
		c.Stat("failed_open_faults", 1)
		if err == nil {
			// the fault was tolerated by Open: contents must be right
			st, derr := core.Dump(db1, nil)
			db1.Close()
			if derr != nil || !st.Equal(ref) {
				c.Violation("open-with-fault-contents", fmt.Sprintf("Open succeeded although its call #%d (%s) failed, but the contents are wrong: %v %s", k, fired, derr, st.Diff(ref, 3)), nil)
				return
			}
			continue
		}
		c.Stat("opens_failed_by_fault", 1)
		// the process ends; the next process opens what is on disk
		e2 := core.CrashEnvFromImage(e1.Crash.Snapshot())
		rec0 := core.Recoveries()
		db2, err := e2.Open(cfg)
		if err != nil {
			c.Violation("open-after-failed-open", fmt.Sprintf("after an Open that failed at its call #%d (%s), the next Open fails too: %v", k, fired, err), map[string]interface{}{"failed_call": fired, "files": core.DescribeImage(e1.Crash.Snapshot())})
			return
		}
		recovered := core.Recoveries() != rec0
		st, derr := core.Dump(db2, nil)
		db2.Close()
		if !recovered {
			c.Violation("unclean-not-recovered", fmt.Sprintf("the last session did not complete Close, an Open then failed at its call #%d (%s); the next successful Open ran no recovery", k, fired), map[string]interface{}{"failed_call": fired})
			return
		}
		if derr != nil || !st.Equal(ref) {
			c.Violation("chain-contents", fmt.Sprintf("after an Open that failed at its call #%d (%s) and a recovering Open, contents differ: %v %s", k, fired, derr, st.Diff(ref, 3)), map[string]interface{}{"failed_call": fired})
			return
		}
		c.Distinct("failed-open", k, fired)
	}
}

// c13ConcurrentOpens: real goroutines leave a barrier and call Open on the same fresh (or cleanly closed) directory at
// once; at most one may succeed, the others must get the 'locked' error. Repeated; no scheduling control - this
// complements the schedule exploration on file systems whose lock acquisition has no internal yield points.
func c13ConcurrentOpens(c *core.Ctx, fsk core.FSKind) {
	cfg := core.Config{}
	rounds := 60
	if fsk == core.FSMem || fsk == core.FSCrash {
		rounds = 1500 // cheap there, and there is no schedule exploration inside their lock acquisition
	}
	for round := 0; round < rounds; round++ {
		env := core.NewEnv(fsk)
		n := 4 + round%5
		var wg sync.WaitGroup
		var ready atomic.Int32
		start := make(chan struct{})
		dbs := make([]*pogreb.DB, n)
		errs := make([]error, n)
		for i := 0; i < n; i++ {
			wg.Add(1)
			go func(i int) {
				defer wg.Done()
				<-start
				ready.Add(1)
				for ready.Load() < int32(n) { // spin barrier: all openers start within nanoseconds of each other
				}
				dbs[i], errs[i] = env.Open(cfg)
			}(i)
		}
		close(start)
		wg.Wait()
		okN := 0
		for i := 0; i < n; i++ {
			if errs[i] == nil {
				okN++
			} else if !pogreb.VerifIsLocked(errs[i]) {
				c.Violation("competing-open-error", fmt.Sprintf("%d concurrent Opens on %s: one failed with %v instead of the 'locked' error", n, fsk, errs[i]), nil)
			}
		}
		c.Eval(1)
		c.Stat("concurrent_open_rounds", 1)
		if okN > 1 {
			c.Violation("second-handle", fmt.Sprintf("%d goroutines called Open on the same directory (%s) at the same time and %d of them succeeded", n, fsk, okN), map[string]interface{}{"fs": fsk})
		}
		for i := 0; i < n; i++ {
			if dbs[i] != nil {
				dbs[i].Close()
			}
		}
		env.Cleanup()
		if c.Violations() > 0 {
			return
		}
	}
}

func runC13Chains(c *core.Ctx, sub int) {
	kinds := []core.FSKind{core.FSOS, core.FSOSMMap, core.FSMem, core.FSCrash}
	fsk := kinds[sub%4]
	if sub < 4 {
		c13ConcurrentOpens(c, fsk)
		if c.Violations() > 0 {
			return
		}
	}
	if fsk == core.FSCrash {
		c13FailedOpens(c)
		if c.Violations() > 0 {
			return
		}
	}
	half := sub / 4 // 0 or 1: which half of the 32 chains
	cfg := core.Config{MaxSeg: 4096}
	for chain := half * 16; chain < half*16+16; chain++ {
		env := core.NewEnv(fsk)
		envs := []*core.Env{env}
		ref := core.State{}
		prevUnclean := false
		ok := true
		var desc []string
		for s := 0; s < 5 && ok; s++ {
			unclean := chain>>uint(s)&1 == 1
			rec0 := core.Recoveries()
			db, err := env.Open(cfg)
			c.Eval(1)
			if err != nil {
				c.Violation("chain-open-error", fmt.Sprintf("chain %05b session %d on %s: Open failed: %v", chain, s, fsk, err), nil)
				ok = false
				break
			}
			recovered := core.Recoveries() != rec0
			if s > 0 {
				if prevUnclean && !recovered {
					c.Violation("unclean-not-recovered", fmt.Sprintf("chain %v on %s: session %d follows a session that did not complete Close but was opened without recovery", desc, fsk, s), nil)
					ok = false
				}
				if !prevUnclean && recovered {
					c.Violation("clean-recovered", fmt.Sprintf("chain %v on %s: session %d follows a completed Close but was opened with recovery", desc, fsk, s), nil)
					ok = false
				}
				if recovered {
					c.Stat("chain_recoveries", 1)
				} else {
					c.Stat("chain_clean_opens", 1)
				}
			}
			if st, err := core.Dump(db, nil); err != nil || !st.Equal(ref) {
				c.Violation("chain-contents", fmt.Sprintf("chain %v on %s session %d: contents differ: %v %s", desc, fsk, s, err, st.Diff(ref, 3)), nil)
				ok = false
			}
			for i := 0; i < 30; i++ {
				k := fmt.Sprintf("k%d", (s*7+i)%40)
				v := fmt.Sprintf("s%d-%d", s, i)
				if err := db.Put([]byte(k), []byte(v)); err != nil {
					c.Violation("chain-put", err.Error(), nil)
					ok = false
					break
				}
				ref[k] = v
			}
			// a competing Open while this handle is open; in every other session the directory also holds the kind of files a
			// recovery in progress keeps there (X.bac), which the loser must not touch either (seeded/R7-C13-m1)
			var planted []string
			if s%2 == 1 {
				for _, n := range []string{"main.pix.bac", "overflow.pix.bac", "index.pmt.bac", "db.pmt.bac"} {
					pth := filepath.Join(env.Dir, n)
					if err := env.WriteFile(pth, []byte("backup kept by the owner of the lock")); err == nil {
						planted = append(planted, pth)
						c.Stat("competing_open_with_bac_files_present", 1)
					}
				}
			}
			before := listing(env)
			if db2, err := env.Open(cfg); err == nil {
				db2.Close()
				c.Violation("second-handle", fmt.Sprintf("chain %v on %s session %d: a second Open succeeded while a handle is open", desc, fsk, s), nil)
				ok = false
			} else if !pogreb.VerifIsLocked(err) {
				c.Violation("competing-open-error", fmt.Sprintf("competing Open failed with %v instead of the 'locked' error", err), nil)
				ok = false
			} else {
				c.Stat("competing_open_rejected", 1)
				if after := listing(env); after != before {
					c.Violation("competing-open-changed-directory", fmt.Sprintf("chain %v on %s session %d: a failed competing Open changed the directory", desc, fsk, s), nil)
					ok = false
				}
			}
			for _, pth := range planted {
				env.FS.Remove(pth)
			}
			if unclean {
				// the session ends without Close: the next session runs on a copy of the directory taken now
				nenv := core.NewEnv(fsk)
				envs = append(envs, nenv)
				if err := env.CopyDirTo(nenv); err != nil {
					c.Violation("setup-error", err.Error(), nil)
					ok = false
				}
				db.Close() // release resources of the abandoned original
				env = nenv
				desc = append(desc, "unclean")
			} else {
				if err := db.Close(); err != nil {
					c.Violation("chain-close", err.Error(), nil)
					ok = false
				}
				desc = append(desc, "clean")
			}
			prevUnclean = unclean
		}
		for _, e := range envs {
			e.Cleanup()
		}
		c.Stat("chains", 1)
		c.Distinct("chain", chain, fsk)
		if !ok {
			return
		}
	}
	_ = os.Getpid
}
