package checks

import (
	"fmt"
	"sync"
	"sync/atomic"

	"github.com/akrylysov/pogreb"

	"pvh/internal/core"
)

func init() {
	core.Register(&core.Check{
		ID:    "C11",
		Level: "exploration",
		Race:     true,
		RaceCase: func(idx int) bool { return idx%3 == 2 },
		Rule: "three kinds of cases. (q) quiescent: after generated programs (C01's generator) a full Items scan must return every live pair exactly once and then " +
			"ErrIterationDone on 3 further calls, on every index shape reached (mid-level split pointers, chains, free list, after compaction, after a restart, " +
			"after a recovery). (i) interleaved, deterministic: between consecutive Next calls of one scan the harness itself inserts keys (forcing 1-40 splits " +
			"incl. level changes, at most 400 inserts per scan so that the scan terminates), deletes and overwrites churn keys in chains already and not yet visited, " +
			"and runs Compact with writers in its windows. (g) goroutines under the race detector: 2-4 writers/deleters, a Compact loop and 1-2 scanners run " +
			"concurrently; all events carry a ticket from one atomic counter. Rules for (i) and (g): every returned pair (k,v) must be a value whose Put(k,v) was " +
			"CALLED before that Next returned (all values are unique), and every 'stable' key - written before the scan started and never written again, spread by " +
			"key engineering over every bucket and into overflow chains - must be returned at least once by every complete scan. evaluations = complete scans; " +
			"distinct_nontrivial = distinct (kind, index growth during the scan, splits, compactions overlapped, duplicates seen) scan observations.",
		Assumptions: []string{
			"tickets from one atomic counter order 'Put was called' before 'Next returned' whenever the scan could have observed the value",
			"termination of a scan under unbounded index growth is not claimed by the property; inserts per scan are capped",
		},
		Cases: func(tier string) int {
			if tier == "thorough" {
				return 6000
			}
			return 96
		},
		Run:     runC11,
		Require: []string{"scans_quiescent", "scans_interleaved", "scans_concurrent", "splits_during_scan", "level_change_during_scan", "compaction_during_scan", "stable_keys_checked", "stable_in_overflow", "pairs_checked", "shared_iterator_scans"},
	})
}

func runC11(c *core.Ctx) {
	switch c.Case % 3 {
	case 0:
		runC11Quiescent(c)
	case 1:
		runC11Interleaved(c)
	default:
		runC11Goroutines(c)
	}
}

func runC11Quiescent(c *core.Ctx) {
	rng := c.Rng
	seed := rng.Uint32()
	core.PinSeed(seed)
	ks := core.GenKeys(rng, seed, randKeySpec(c))
	cfg := core.RandConfig(rng)
	fsk := []core.FSKind{core.FSMem, core.FSCrash, core.FSOSMMap, core.FSOS}[(c.Case/3)%4]
	ops := core.GenOps(rng, ks, core.ProgSpec{NOps: 200 + rng.Intn(800), CompactPct: 40, Reopen: true})
	env := core.NewEnv(fsk)
	defer func() { env.Cleanup() }()
	x, err := core.NewExec(c, env, cfg, ks.Keys)
	if err != nil {
		c.Violation("open-error", err.Error(), nil)
		return
	}
	defer func() {
		if x.DB != nil {
			x.DB.Close()
		}
	}()
	scan := func(i int, when string) bool {
		st, err := core.Dump(x.DB, nil) // full scan: duplicates, Count, 3 extra Next calls
		c.Eval(1)
		c.Stat("scans_quiescent", 1)
		_, _, shape := core.CheckIndex(x.DB, x.Env, nil)
		c.Distinct("q", shape.Key())
		if err != nil {
			c.Violation("quiescent-scan", fmt.Sprintf("op %d (%s): %v", i, when, err), progData(seed, fsk, cfg, ks, ops, i+1))
			return false
		}
		if !st.Equal(x.Ref) {
			c.Violation("quiescent-scan", fmt.Sprintf("op %d (%s): scan differs from the live pairs: %s", i, when, st.Diff(x.Ref, 4)), progData(seed, fsk, cfg, ks, ops, i+1))
			return false
		}
		return true
	}
	for i, op := range ops {
		if sig, detail := x.Do(op); sig != "" {
			c.Violation(sig, detail, progData(seed, fsk, cfg, ks, ops, i+1))
			return
		}
		if i%40 == 39 || op.K == core.OpReopen || op.K == core.OpCompact {
			if !scan(i, "after "+op.K.String()) {
				return
			}
		}
	}
	// after a recovery
	cenv := core.NewEnv(core.FSCrash)
	if err := x.Env.CopyDirTo(cenv); err == nil {
		if rdb, err := cenv.Open(cfg); err == nil {
			old := x.DB
			x.DB = rdb
			oenv := x.Env
			x.Env = cenv
			scan(len(ops), "after recovery")
			x.DB = old
			x.Env = oenv
			rdb.Close()
		}
	}
}

// stableSetup opens a database with a set of stable keys spread over every bucket (several of them packed
// into one overflow chain) plus churn keys; returns stable map and churn list.
type c11db struct {
	env    *core.Env
	db     *pogreb.DB
	stable map[string]string
	churn  [][]byte
	seed   uint32
	cfg    core.Config
}

func c11Setup(c *core.Ctx, fsk core.FSKind) (*c11db, error) {
	rng := c.Rng
	seed := rng.Uint32()
	core.PinSeed(seed)
	cfg := core.Config{MaxSeg: []uint32{4096, 16384, 0}[rng.Intn(3)], MinSeg: 600, Frag: 0.2}
	env := core.NewEnv(fsk)
	db, err := env.Open(cfg)
	if err != nil {
		return nil, err
	}
	d := &c11db{env: env, db: db, stable: map[string]string{}, seed: seed, cfg: cfg}
	// stable keys: plain ones (spread over all buckets by the hash) + a group sharing 16 low bits (overflow chain)
	ks := core.GenKeys(rng, seed, core.KeySpec{Chain16: 40 + rng.Intn(30), Chain3: 20, Plain: 60 + rng.Intn(200), SameHashGroups: 1, SameHashSize: 3})
	for i, k := range ks.Keys {
		v := fmt.Sprintf("stable-%d", i)
		if err := db.Put(k, []byte(v)); err != nil {
			return nil, err
		}
		d.stable[string(k)] = v
	}
	// churn keys: some in the same chain as the stable ones, some plain
	ck := core.GenKeys(rng, seed^0x5a5a, core.KeySpec{Plain: 40})
	for _, k := range ck.Keys {
		if _, dup := d.stable[string(k)]; !dup && len(k) > 0 {
			d.churn = append(d.churn, append([]byte("c-"), k...))
		}
	}
	lo := core.GenKeys(rng, seed, core.KeySpec{Chain16: 0})
	_ = lo
	return d, nil
}

func overflowStable(d *c11db) int {
	_, _, shape := core.CheckIndex(d.db, d.env, nil)
	return shape.Overflow
}

func runC11Interleaved(c *core.Ctx) {
	rng := c.Rng
	fsk := []core.FSKind{core.FSMem, core.FSCrash, core.FSOSMMap}[(c.Case/3)%3]
	d, err := c11Setup(c, fsk)
	if err != nil {
		c.Violation("open-error", err.Error(), nil)
		return
	}
	defer d.env.Cleanup()
	defer d.db.Close()
	if overflowStable(d) > 0 {
		c.Stat("stable_in_overflow", 1)
	}
	everPut := map[string]map[string]bool{} // key -> set of values ever put (call already made)
	for k, v := range d.stable {
		everPut[k] = map[string]bool{v: true}
	}
	val := 0
	put := func(k []byte) {
		val++
		v := fmt.Sprintf("v%d", val)
		if everPut[string(k)] == nil {
			everPut[string(k)] = map[string]bool{}
		}
		everPut[string(k)][v] = true
		if err := d.db.Put(k, []byte(v)); err != nil {
			c.Violation("put-error", err.Error(), nil)
		}
	}
	nscans := 3 + rng.Intn(3)
	fresh := 0
	for s := 0; s < nscans && c.Violations() == 0; s++ {
		vi0, _ := d.db.VerifIndexDump()
		it := d.db.Items()
		seen := map[string]bool{}
		inserts, dups, compactions := 0, 0, 0
		burstEvery := 1 + rng.Intn(6)
		n := 0
		for {
			k, v, err := it.Next()
			if err == pogreb.ErrIterationDone {
				break
			}
			if err != nil {
				c.Violation("next-error", err.Error(), nil)
				return
			}
			n++
			c.Stat("pairs_checked", 1)
			if !everPut[string(k)][string(v)] {
				c.Violation("scan-untruthful-pair", fmt.Sprintf("interleaved scan %d returned (%x, %q) but that value was never put for that key", s, trunc(k, 16), v),
					map[string]interface{}{"hash_seed": d.seed, "fs": fsk})
				return
			}
			if seen[string(k)] {
				dups++
			}
			seen[string(k)] = true
			if n%burstEvery != 0 {
				continue
			}
			// burst between two Next calls
			switch rng.Intn(10) {
			case 0, 1, 2, 3:
				m := 1 + rng.Intn(60)
				for j := 0; j < m && inserts < 400; j++ {
					fresh++
					inserts++
					put([]byte(fmt.Sprintf("fresh-%d-%d", c.Case, fresh)))
				}
			case 4, 5, 6:
				for j := 0; j < 1+rng.Intn(8); j++ {
					k := d.churn[rng.Intn(len(d.churn))]
					if rng.Intn(2) == 0 {
						put(k)
					} else if err := d.db.Delete(k); err != nil {
						c.Violation("delete-error", err.Error(), nil)
					}
				}
			case 7:
				// Compact with writers in its windows
				core.SetYield(func(db *pogreb.DB, point string) {
					if db == d.db && point == "compact:record" && rng.Intn(4) == 0 {
						put(d.churn[rng.Intn(len(d.churn))])
					}
				})
				cr, err := d.db.Compact()
				core.SetYield(nil)
				if err != nil {
					c.Violation("compact-error", err.Error(), nil)
					return
				}
				if cr.CompactedSegments > 0 {
					compactions++
					c.Stat("compaction_during_scan", 1)
				}
			default:
				// overwrite churn keys heavily to make segments eligible
				for j := 0; j < 20; j++ {
					put(d.churn[rng.Intn(len(d.churn))])
				}
			}
		}
		for i := 0; i < 3; i++ {
			if _, _, err := it.Next(); err != pogreb.ErrIterationDone {
				c.Violation("done-not-sticky", fmt.Sprintf("Next after ErrIterationDone returned %v", err), nil)
				return
			}
		}
		vi1, _ := d.db.VerifIndexDump()
		splits := int(vi1.NumBuckets) - int(vi0.NumBuckets)
		c.Eval(1)
		c.Stat("scans_interleaved", 1)
		if splits > 0 {
			c.Stat("splits_during_scan", int64(splits))
		}
		if vi1.Level != vi0.Level {
			c.Stat("level_change_during_scan", 1)
		}
		c.Distinct("i", splits, vi1.Level-vi0.Level, compactions, dups > 0)
		for k := range d.stable {
			c.Stat("stable_keys_checked", 1)
			if !seen[k] {
				c.Violation("scan-missed-stable-key", fmt.Sprintf("interleaved scan %d (index grew %d->%d buckets, level %d->%d, %d compactions) did not return stable key %x, which existed unchanged for the whole scan",
					s, vi0.NumBuckets, vi1.NumBuckets, vi0.Level, vi1.Level, compactions, trunc([]byte(k), 16)), map[string]interface{}{"hash_seed": d.seed, "fs": fsk})
				return
			}
		}
	}
	if c.Case < 4 {
		c.Sample(map[string]interface{}{"kind": "interleaved", "fs": fsk, "stable_keys": len(d.stable), "churn_keys": len(d.churn), "scans": nscans})
	}
}

func runC11Goroutines(c *core.Ctx) {
	rng := c.Rng
	fsk := []core.FSKind{core.FSMem, core.FSOSMMap, core.FSOS}[(c.Case/3)%3]
	d, err := c11Setup(c, fsk)
	if err != nil {
		c.Violation("open-error", err.Error(), nil)
		return
	}
	defer d.env.Cleanup()
	if overflowStable(d) > 0 {
		c.Stat("stable_in_overflow", 1)
	}
	// before any writer starts: ONE iterator shared by four goroutines over the quiescent database must hand out every
	// live pair exactly once in total (Next is documented as safe for concurrent use)
	{
		it := d.db.Items()
		var mu sync.Mutex
		got := map[string]int{}
		bad := ""
		var swg sync.WaitGroup
		for g := 0; g < 4; g++ {
			swg.Add(1)
			go func() {
				defer swg.Done()
				for {
					k, v, err := it.Next()
					if err == pogreb.ErrIterationDone {
						return
					}
					mu.Lock()
					if err != nil {
						bad = "Next: " + err.Error()
						mu.Unlock()
						return
					}
					if sv, ok := d.stable[string(k)]; !ok || sv != string(v) {
						bad = fmt.Sprintf("pair (%x, %q) is not a live pair", trunc(k, 16), v)
					}
					got[string(k)]++
					mu.Unlock()
				}
			}()
		}
		swg.Wait()
		c.Stat("shared_iterator_scans", 1)
		for k := range d.stable {
			if got[k] != 1 && bad == "" {
				bad = fmt.Sprintf("key %x was returned %d times", trunc([]byte(k), 16), got[k])
			}
		}
		if bad != "" {
			c.Violation("shared-iterator-scan", "four goroutines sharing one iterator over a quiescent database: "+bad, map[string]interface{}{"hash_seed": d.seed, "fs": fsk})
			d.db.Close()
			return
		}
	}
	var clock atomic.Int64
	type putEv struct {
		key, val string
		t0      int64
	}
	nw := 2 + rng.Intn(3)
	perWriter := 150 + rng.Intn(250)
	logs := make([][]putEv, nw)
	stop := make(chan struct{})
	var wg sync.WaitGroup
	var werr atomic.Value
	freshCap := 300 / nw
	for w := 0; w < nw; w++ {
		wg.Add(1)
		wseed := rng.Int63()
		go func(w int) {
			defer wg.Done()
			r := newRand(wseed)
			fresh := 0
			for i := 0; i < perWriter; i++ {
				var k []byte
				if r.Intn(3) == 0 && fresh < freshCap {
					fresh++
					k = []byte(fmt.Sprintf("g%d-fresh-%d", w, fresh))
				} else {
					k = d.churn[(r.Intn(len(d.churn))/nw)*nw%len(d.churn)]
					k = append(append([]byte{}, k...), byte('0'+w)) // writers own disjoint churn keys
				}
				if r.Intn(4) == 0 {
					if err := d.db.Delete(k); err != nil {
						werr.Store(err)
						return
					}
					continue
				}
				v := fmt.Sprintf("g%d-%d", w, i)
				logs[w] = append(logs[w], putEv{string(k), v, clock.Add(1)})
				if err := d.db.Put(k, []byte(v)); err != nil {
					werr.Store(err)
					return
				}
			}
		}(w)
	}
	// compaction loop
	wg.Add(1)
	var compactions atomic.Int64
	go func() {
		defer wg.Done()
		for {
			select {
			case <-stop:
				return
			default:
			}
			if cr, err := d.db.Compact(); err == nil && cr.CompactedSegments > 0 {
				compactions.Add(1)
			}
		}
	}()
	type pairEv struct {
		key, val string
		tr       int64
	}
	type scanRec struct {
		pairs      []pairEv
		b0, b1     uint32
		l0, l1     uint8
		comp0, comp1 int64
	}
	nscanners := 1 + rng.Intn(2)
	scans := make([][]scanRec, nscanners)
	var swg sync.WaitGroup
	for s := 0; s < nscanners; s++ {
		swg.Add(1)
		go func(s int) {
			defer swg.Done()
			for n := 0; n < 4; n++ {
				var rec scanRec
				vi, _ := d.db.VerifIndexDump()
				rec.b0, rec.l0, rec.comp0 = vi.NumBuckets, vi.Level, compactions.Load()
				it := d.db.Items()
				for {
					k, v, err := it.Next()
					tr := clock.Add(1)
					if err == pogreb.ErrIterationDone {
						break
					}
					if err != nil {
						werr.Store(err)
						return
					}
					rec.pairs = append(rec.pairs, pairEv{string(k), string(v), tr})
				}
				vi, _ = d.db.VerifIndexDump()
				rec.b1, rec.l1, rec.comp1 = vi.NumBuckets, vi.Level, compactions.Load()
				scans[s] = append(scans[s], rec)
			}
		}(s)
	}
	swg.Wait()
	close(stop)
	wg.Wait()
	if e := werr.Load(); e != nil {
		c.Violation("op-error", fmt.Sprintf("an operation failed during the concurrent run: %v", e), map[string]interface{}{"hash_seed": d.seed, "fs": fsk})
		d.db.Close()
		return
	}
	// judge
	firstPut := map[string]int64{} // key\x00val -> t0
	for _, l := range logs {
		for _, e := range l {
			firstPut[e.key+"\x00"+e.val] = e.t0
		}
	}
	for _, ss := range scans {
		for si, rec := range ss {
			c.Eval(1)
			c.Stat("scans_concurrent", 1)
			seen := map[string]bool{}
			dups := false
			for _, p := range rec.pairs {
				c.Stat("pairs_checked", 1)
				if seen[p.key] {
					dups = true
				}
				seen[p.key] = true
				if sv, ok := d.stable[p.key]; ok {
					if sv != p.val {
						c.Violation("scan-untruthful-pair", fmt.Sprintf("concurrent scan returned stable key %x with value %q, it only ever had %q", trunc([]byte(p.key), 16), p.val, sv), map[string]interface{}{"hash_seed": d.seed, "fs": fsk})
						d.db.Close()
						return
					}
					continue
				}
				t0, ok := firstPut[p.key+"\x00"+p.val]
				if !ok || t0 > p.tr {
					c.Violation("scan-untruthful-pair", fmt.Sprintf("concurrent scan returned (%x, %q): no Put of that value for that key had been called when Next returned (put ticket %d, known=%v, Next ticket %d)", trunc([]byte(p.key), 16), p.val, t0, ok, p.tr),
						map[string]interface{}{"hash_seed": d.seed, "fs": fsk})
					d.db.Close()
					return
				}
			}
			if rec.b1 > rec.b0 {
				c.Stat("splits_during_scan", int64(rec.b1-rec.b0))
			}
			if rec.l1 != rec.l0 {
				c.Stat("level_change_during_scan", 1)
			}
			if rec.comp1 > rec.comp0 {
				c.Stat("compaction_during_scan", 1)
			}
			c.Distinct("g", rec.b1-rec.b0, rec.l1-rec.l0, rec.comp1-rec.comp0, dups, si)
			for k := range d.stable {
				c.Stat("stable_keys_checked", 1)
				if !seen[k] {
					c.Violation("scan-missed-stable-key", fmt.Sprintf("concurrent scan (index %d->%d buckets, level %d->%d, %d compactions overlapped) did not return stable key %x, which existed unchanged for the whole scan",
						rec.b0, rec.b1, rec.l0, rec.l1, rec.comp1-rec.comp0, trunc([]byte(k), 16)), map[string]interface{}{"hash_seed": d.seed, "fs": fsk})
					d.db.Close()
					return
				}
			}
		}
	}
	// quiescent scan at the end: exact
	if _, err := core.Dump(d.db, nil); err != nil {
		c.Violation("quiescent-scan", "after the concurrent run: "+err.Error(), map[string]interface{}{"hash_seed": d.seed, "fs": fsk})
	}
	d.db.Close()
	if c.Case < 6 {
		c.Sample(map[string]interface{}{"kind": "goroutines", "fs": fsk, "writers": nw, "scanners": nscanners, "stable_keys": len(d.stable), "puts_logged": len(firstPut)})
	}
}
