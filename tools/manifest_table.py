add("C01", "exploration",
    "runtime monitor: reference-map differential on generated programs with hash-collision-engineered keys + structural index invariant walk at quiescent points",
    "Every call of thousands of generated API programs (keys engineered to collide in the full hash or in its low bits for a pinned seed; thresholds from a grid; Mem/CrashFS/OS/OSMMap) is compared with a reference map, Count after every call, and the on-disk index is walked every 64 calls (slot placement, duplicates, slot->record agreement via an independent record decoder, free list). Held on the executions listed in the evidence; not a proof over all histories.",
    "Trusts the reference map, the independent decoder/hash re-implementation (cross-checked against pogreb's on every slot) and that pinning the hash seed through the verif hook does not change behaviour otherwise. Single goroutine.",
    "DESIGN.md 4/C01")
