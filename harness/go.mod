module pvh

go 1.18

require (
	github.com/akrylysov/pogreb v0.0.0
	github.com/anishathalye/porcupine v1.3.0
)

replace github.com/akrylysov/pogreb => /repo
