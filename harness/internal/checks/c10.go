package checks

import (
	"fmt"
	"os"
	"path/filepath"
	"regexp"
	"runtime"
	"sort"
	"strings"
	"sync"
	"sync/atomic"
	"time"

	"github.com/akrylysov/pogreb"

	"pvh/internal/core"
)

func init() {
	core.Register(&core.Check{
		ID:    "C10",
		Level: "exploration",
		Race:  true,
		Rule: "one case = one short concurrent run in the race-detector build (which implies checkptr; SetPanicOnFault on): 6-16 goroutines call every public method " +
			"(Put, Delete, Get, GetAppend, Has, Count, Items/Next on private and on SHARED iterators, Sync, Compact, Backup, FileSize, Metrics) on fs.Mem/fs.OS/" +
			"fs.OSMMap, every key owned by one writer; the background sync/compaction worker runs at 1 ms in half of the runs; the compaction yield hook sleeps " +
			"0-100 us; Close is fired at a PRNG-chosen operation count while everything else keeps running, and the workers keep calling for a while after it " +
			"returned. Refuted by: a WARNING: DATA RACE block with a library frame (counted per unordered pair of outermost entry points), a panic / fatal error / " +
			"fault in the child, a deadlock picture (no progress for 60 s and two identical goroutine dumps 10 s apart in which every library goroutine is parked " +
			"on a mutex/waitgroup), a goroutine with a library frame still alive 30 s after Close returned and the workers joined, a call after Close that " +
			"returns nil for a write, or contents - on a clean reopen AND on a copy reopened with forced recovery - that differ from exactly the effects of the " +
			"calls that returned nil. evaluations = runs; distinct_nontrivial = distinct (fs, method pair) overlaps observed in the recorded call intervals.",
		Assumptions: []string{
			"the race detector reports no false positives; it only sees races on executed paths",
			"keys are owned by one writer each, so 'effects of the calls that returned nil' is well defined",
		},
		Cases: func(tier string) int {
			if tier == "thorough" {
				return 6000
			}
			return 96
		},
		Run:     runC10,
		Require: []string{"runs", "ops_before_close", "ops_after_close_failed", "close_raced_with_ops", "method_pairs_overlapped", "fs_mem", "fs_os", "fs_osmmap", "bg_worker_runs", "forced_recoveries", "shared_iterator_calls", "runs_started_by_recovery_with_bg_worker", "puts_of_1MiB_values"},
		PostChild: func(p *core.Parent, shard int, logPath string) {
			seen := map[string]int{}
			first := map[string]core.RaceReport{}
			for _, r := range core.ParseRaceLogs(p.WorkDir, shard) {
				p.AddStat("race_reports", 1)
				if !r.HasPogreb {
					p.AddStat("race_reports_harness_only", 1)
					p.HarnessErr = append(p.HarnessErr, "race detector report without a library frame (harness race):\n"+trunc2(r.Text, 3000))
					continue
				}
				sig := r.Signature()
				if seen[sig] == 0 {
					first[sig] = r
				}
				seen[sig]++
			}
			for sig, n := range seen {
				r := first[sig]
				p.AddViolation(-1, core.Violation{Signature: sig, Detail: fmt.Sprintf("data race between %s and %s (inner frames %s / %s), reported %d times by shard %d", r.Entries[0], r.Entries[1], r.Inner[0], r.Inner[1], n, shard),
					Data: map[string]interface{}{"report": trunc2(r.Text, 8000)}})
			}
		},
	})
}

func trunc2(s string, n int) string {
	if len(s) > n {
		return s[:n] + "..."
	}
	return s
}

var goroutineHdr = regexp.MustCompile(`(?m)^goroutine \d+ \[`)

// libraryGoroutines returns the stacks of goroutines that have a library frame but no harness worker frame.
func libraryGoroutines() []string {
	buf := make([]byte, 1<<22)
	n := runtime.Stack(buf, true)
	var out []string
	for _, g := range strings.Split(string(buf[:n]), "\n\n") {
		// goroutines STARTED by the library (whatever they call, e.g. the harness' yield callback), and goroutines with a
		// library frame that were not started by the harness
		if strings.Contains(g, "created by github.com/akrylysov/pogreb") ||
			(core.StackHasPogreb(g) && !strings.Contains(g, "pvh/internal/checks.")) {
			out = append(out, g)
		}
	}
	return out
}

// maintenanceStraggler returns the stack of a goroutine started by the library that is inside Compact or Sync.
func maintenanceStraggler() string {
	buf := make([]byte, 1<<21)
	n := runtime.Stack(buf, true)
	for _, g := range strings.Split(string(buf[:n]), "\n\n") {
		if strings.Contains(g, "created by github.com/akrylysov/pogreb") &&
			(strings.Contains(g, "pogreb.(*DB).compact(") || strings.Contains(g, "pogreb.(*DB).Compact(") || strings.Contains(g, "pogreb.(*DB).Sync(")) {
			return g
		}
	}
	return ""
}

type ival struct {
	m      string
	t0, t1 int64
}

func runC10(c *core.Ctx) {
	rng := c.Rng
	seed := rng.Uint32()
	core.PinSeed(seed)
	fsk := []core.FSKind{core.FSMem, core.FSOS, core.FSOSMMap}[c.Case%3]
	var preState core.State
	c.Stat("fs_"+string(fsk), 1)
	c.Stat("runs", 1)
	c.Eval(1)
	cfg := core.Config{MaxSeg: []uint32{1024, 2048, 4096}[rng.Intn(3)], MinSeg: 513, Frag: 0.05}
	bg := c.Case%2 == 0
	if bg {
		cfg.BgSync = time.Millisecond
		cfg.BgCompact = time.Millisecond
		c.Stat("bg_worker_runs", 1)
	}
	if c.Case%7 == 3 {
		cfg.SyncWrites = true
		cfg.BgSync = 0
	}
	env := core.NewEnv(fsk)
	defer func() { env.Cleanup() }()
	cfg0 := cfg
	if c.Case%4 == 2 {
		cfg0.BgSync, cfg0.BgCompact = 0, 0 // the pre-fill session runs without the background worker
	}
	db, err := env.Open(cfg0)
	if err != nil {
		c.Violation("open-error", err.Error(), nil)
		return
	}
	if c.Case%4 == 2 {
		// this run starts with a RECOVERY while the background worker is configured: fill, copy the directory while open
		// (unclean image), recover the copy with the 1 ms background compaction/sync enabled, and run the stress there
		for i := 0; i < 600; i++ {
			k := []byte(fmt.Sprintf("pre-%d", i%90))
			if err := db.Put(k, []byte(fmt.Sprintf("pre-value-%d-%s", i, strings.Repeat("y", i%70)))); err != nil {
				c.Violation("put-error", err.Error(), nil)
				return
			}
		}
		nenv := core.NewEnv(fsk)
		if err := env.CopyDirTo(nenv); err != nil {
			db.Close()
			nenv.Cleanup()
			c.Violation("setup-error", err.Error(), nil)
			return
		}
		pre, derr := core.Dump(db, nil)
		db.Close()
		env.Cleanup()
		env = nenv
		rcfg := cfg
		rcfg.SyncWrites = false
		rcfg.BgSync = time.Millisecond
		rcfg.BgCompact = time.Millisecond
		db, err = env.Open(rcfg)
		if err != nil {
			c.Violation("recover-error", fmt.Sprintf("recovering Open with the background worker configured failed: %v (fs %s)", err, fsk), map[string]interface{}{"hash_seed": seed, "fs": fsk})
			return
		}
		if st, err := core.Dump(db, nil); derr == nil && (err != nil || !st.Equal(pre)) {
			db.Close()
			c.Violation("contents-after-recovery-with-bg-worker", fmt.Sprintf("contents after a recovery with background compaction configured differ: %v %s (fs %s)", err, st.Diff(pre, 3), fsk), map[string]interface{}{"hash_seed": seed, "fs": fsk})
			return
		}
		bg = true
		c.Stat("runs_started_by_recovery_with_bg_worker", 1)
		// the pre-filled keys stay untouched by the workers and must survive
		defer func() { _ = pre }()
		preState = pre
	}
	nworkers := 6 + rng.Intn(11)
	closeAt := int64(100 + rng.Intn(1500))
	afterClose := int64(150)
	var opCount atomic.Int64
	var closed atomic.Bool      // Close has returned
	var closeCalled atomic.Bool // Close has been called
	var clock core.Clock
	var mu sync.Mutex
	var ivals []ival
	violated := atomic.Value{}
	report := func(sig, detail string) {
		violated.CompareAndSwap(nil, [2]string{sig, detail})
	}
	var slowYields atomic.Int64
	hookRng := newRand(int64(seed))
	var hookMu sync.Mutex
	core.SetYield(func(d *pogreb.DB, point string) {
		if d != db {
			return
		}
		hookMu.Lock()
		us := hookRng.Intn(100)
		hookMu.Unlock()
		if closeCalled.Load() && !closed.Load() && slowYields.Add(1) <= 3 {
			// maintenance that is in flight while Close runs is held at its yield point until Close has returned (at most
			// 300 ms, three times per run): Close has to wait for the background worker anyway - then this only delays
			// it - and whatever Close does NOT wait for is still inside Compact when Close returns
			for i := 0; i < 300 && !closed.Load(); i++ {
				time.Sleep(time.Millisecond)
			}
			return
		}
		if us > 50 {
			time.Sleep(time.Duration(us) * time.Microsecond)
		}
	})
	defer core.SetYield(nil)
	shared := db.Items()
	type wstate struct {
		expect map[string]string // effect of the last nil-returning write per owned key
		// effects of writes that returned an error after the last nil-returning write of the key: the property
		// lets such a call "fail with an error", it does not say that a failed call has no effect
		failed map[string][]string
	}
	states := make([]*wstate, nworkers)
	var progress []atomic.Int64 = make([]atomic.Int64, nworkers)
	var wg sync.WaitGroup
	var afterCloseFailed, afterCloseOps, beforeCloseOps, sharedCalls, bigPuts atomic.Int64
	var bgInFlight atomic.Int64
	stragglerAtClose := ""
	closeDone := make(chan struct{})
	var closeErr error
	var closeT0, closeT1 int64
	fireClose := func() {
		if closeCalled.CompareAndSwap(false, true) {
			go func() {
				if bg {
					// let Close coincide with background maintenance in flight, if there is any within the next 50 ms
					for i := 0; i < 50 && maintenanceStraggler() == ""; i++ {
						time.Sleep(time.Millisecond)
					}
				}
				closeT0 = clock.Tick()
				if maintenanceStraggler() != "" {
					bgInFlight.Add(1)
				}
				closeErr = db.Close()
				closeT1 = clock.Tick()
				// Close has just returned: a goroutine STARTED by the database must not be inside maintenance now. (A worker
				// that is merely finishing after it signalled the wait group has no Compact/Sync frame any more.)
				if os.Getenv("PVH_DEBUG_C10") != "" {
					buf := make([]byte, 1<<21)
					n := runtime.Stack(buf, true)
					for _, g := range strings.Split(string(buf[:n]), "\n\n") {
						if strings.Contains(g, "created by github.com/akrylysov/pogreb") {
							fmt.Fprintf(os.Stderr, "DEBUG library goroutine at Close return:\n%s\n", g)
						}
					}
				}
				if g := maintenanceStraggler(); g != "" {
					stragglerAtClose = g
				}
				closed.Store(true)
				close(closeDone)
			}()
		}
	}
	for w := 0; w < nworkers; w++ {
		wg.Add(1)
		st := &wstate{expect: map[string]string{}, failed: map[string][]string{}}
		states[w] = st
		wseed := rng.Int63()
		go func(w int) {
			defer wg.Done()
			r := newRand(wseed)
			var local []ival
			defer func() {
				mu.Lock()
				ivals = append(ivals, local...)
				mu.Unlock()
			}()
			var it *pogreb.ItemIterator
			post := int64(0)
			racing := 0
			myBig := 0
			for i := 0; ; i++ {
				n := opCount.Add(1)
				if n == closeAt {
					fireClose()
				}
				if closeCalled.Load() && !closed.Load() {
					// Close is in progress: a bounded number of further calls race with it, then the worker waits for it
					racing++
					if racing > 200 {
						<-closeDone
					}
				}
				wasClosed := closed.Load() // Close had RETURNED before this call started
				if wasClosed {
					post++
					if post > afterClose/int64(nworkers)+5 {
						return
					}
				} else {
					beforeCloseOps.Add(1)
				}
				progress[w].Add(1)
				key := []byte(fmt.Sprintf("w%d-k%d", w, r.Intn(12)))
				// on the memory-mapped file system one key per run carries a value of 1 MiB (copying it out takes a while);
				// it is written once and otherwise read
				bigKey := fsk == core.FSOSMMap && w == 0 && r.Intn(6) == 0 && (myBig < 1 || r.Intn(3) > 0)
				if bigKey {
					key = []byte(fmt.Sprintf("w%d-big", w))
				}
				if fsk == core.FSOSMMap && w != 0 && r.Intn(40) == 0 {
					// every worker reads the one large value now and then (copying 1 MiB out of the mapping takes a while)
					t0 := clock.Tick()
					_, gerr := db.Get([]byte("w0-big"))
					local = append(local, ival{"Get", t0, clock.Tick()})
					_ = gerr
					continue
				}
				var m string
				var err error
				isWrite := false
				t0 := clock.Tick()
				switch x := r.Intn(100); {
				case x < 28:
					m = "Put"
					isWrite = true
					v := fmt.Sprintf("v-%d-%d-%s", w, i, strings.Repeat("x", r.Intn(80)))
					if bigKey {
						if myBig < 1 {
							myBig++
							v = fmt.Sprintf("v-%d-%d-%s", w, i, strings.Repeat("B", 1<<20))
							bigPuts.Add(1)
						} else {
							m = "Get"
							isWrite = false
							_, err = db.Get(key) // the big value is mostly read
							break
						}
					}
					err = db.Put(key, []byte(v))
					if err == nil {
						st.expect[string(key)] = v
						delete(st.failed, string(key))
					} else {
						st.failed[string(key)] = append(st.failed[string(key)], v)
					}
				case x < 40:
					m = "Delete"
					isWrite = true
					err = db.Delete(key)
					if err == nil {
						delete(st.expect, string(key))
						delete(st.failed, string(key))
					} else {
						st.failed[string(key)] = append(st.failed[string(key)], absent)
					}
				case x < 52:
					m = "Get"
					var v []byte
					v, err = db.Get(key)
					if err == nil && !closeCalled.Load() {
						if want, ok := st.expect[string(key)]; ok != (v != nil) || string(v) != want {
							report("own-key-read-mismatch", fmt.Sprintf("worker %d: Get of its own key %s returned %q, its last acknowledged write was %q (present=%v)", w, key, v, want, ok))
						}
					}
				case x < 58:
					m = "GetAppend"
					_, err = db.GetAppend(key, []byte("p"))
				case x < 66:
					m = "Has"
					_, err = db.Has(key)
				case x < 70:
					m = "Count"
					db.Count()
				case x < 80:
					m = "Next"
					if it == nil || r.Intn(30) == 0 {
						it = db.Items()
					}
					if r.Intn(3) == 0 {
						sharedCalls.Add(1)
						_, _, err = shared.Next()
					} else {
						_, _, err = it.Next()
					}
					if err == pogreb.ErrIterationDone {
						err = nil
						it = nil
					}
				case x < 84:
					m = "Sync"
					err = db.Sync()
				case x < 89:
					if bg && r.Intn(6) != 0 {
						// with the background worker on, user-invoked compactions are rare so that the worker's own get to run
						m = "Has"
						_, err = db.Has(key)
						break
					}
					m = "Compact"
					_, err = db.Compact()
					if pogreb.VerifIsBusy(err) {
						err = nil
					}
				case x < 92:
					m = "Backup"
					bdir := env.Sub(fmt.Sprintf("bk-%d-%d", w, i))
					err = db.Backup(bdir)
					env.RemoveAllIn(bdir)
					if fsk != core.FSMem {
						os.RemoveAll(bdir)
					}
				case x < 96:
					m = "FileSize"
					_, err = db.FileSize()
				default:
					m = "Metrics"
					mt := db.Metrics()
					_ = mt.Puts.Value() + mt.Gets.Value() + mt.Dels.Value() + mt.HashCollisions.Value()
				}
				t1 := clock.Tick()
				local = append(local, ival{m, t0, t1})
				if wasClosed {
					afterCloseOps.Add(1)
					if err != nil {
						afterCloseFailed.Add(1)
					} else if isWrite && m == "Put" {
						report("write-after-close-succeeded", fmt.Sprintf("worker %d: %s on %s returned nil although Close had returned before the call started", w, m, key))
					}
				}
			}
		}(w)
	}
	// watchdog
	joined := make(chan struct{})
	go func() { wg.Wait(); close(joined) }()
	deadlocked := false
	stuckForGood := false
	func() {
		last := make([]int64, nworkers)
		stuck := 0
		for {
			select {
			case <-joined:
				return
			case <-time.After(2 * time.Second):
			}
			moved := false
			for i := range progress {
				if v := progress[i].Load(); v != last[i] {
					last[i] = v
					moved = true
				}
			}
			if moved {
				stuck = 0
				continue
			}
			stuck++
			if stuck < 30 {
				continue
			}
			// no progress for 60 s: take two dumps 10 s apart
			d1 := goroutineDump()
			time.Sleep(10 * time.Second)
			select {
			case <-joined:
				return
			default:
			}
			d2 := goroutineDump()
			if parkedOnSync(d1) && normalizeDump(d1) == normalizeDump(d2) {
				deadlocked = true
				c.Violation("deadlock", fmt.Sprintf("no worker made progress for 60 s and two goroutine dumps 10 s apart are identical with every library goroutine parked on a mutex/waitgroup (fs %s, bg worker %v, Close called %v, returned %v)", fsk, bg, closeCalled.Load(), closed.Load()),
					map[string]interface{}{"hash_seed": seed, "fs": fsk, "config": cfg, "dump": trunc2(d2, 20000)})
			} else {
				c.Inconclusive("no progress for 60 s but the goroutine dumps do not show a stable all-parked picture (all parked: %v / %v, first non-parked library goroutine: %q, dumps equal: %v)",
					parkedOnSync(d1), parkedOnSync(d2), notParked, normalizeDump(d1) == normalizeDump(d2))
			}
			// goroutines of this run may be stuck for good: do not run further cases in this process
			stuckForGood = true
			return
		}
	}()
	if deadlocked || stuckForGood || len(c.Inconclusives()) > 0 {
		c.AbortShard()
		return
	}
	fireClose() // in case the workers finished before reaching closeAt (cannot happen: they loop until closed)
	select {
	case <-closeDone:
	case <-time.After(90 * time.Second):
		d := goroutineDump()
		if parkedOnSync(d) {
			c.Violation("deadlock", "Close did not return within 90 s after all workers had joined", map[string]interface{}{"dump": trunc2(d, 20000)})
		} else {
			c.Inconclusive("Close did not return within 90 s")
		}
		return
	}
	// right after Close returned and every caller joined: no goroutine of the database may still be doing maintenance
	// a second Close on the closed handle must not panic or hang (whatever it returns)
	secondDone := make(chan struct{})
	go func() {
		defer close(secondDone)
		db.Close()
	}()
	select {
	case <-secondDone:
		c.Stat("second_close_calls", 1)
	case <-time.After(60 * time.Second):
		c.Inconclusive("a second Close on a closed handle did not return within 60 s")
		c.AbortShard()
		return
	}
	if stragglerAtClose != "" {
		c.Violation("goroutine-left-running", fmt.Sprintf("when Close returned, a goroutine started by the database was still running maintenance (fs %s, bg worker %v)", fsk, bg),
			map[string]interface{}{"stack": stragglerAtClose})
		core.SetYield(nil)
		return
	}
	core.SetYield(nil)
	c.Stat("ops_before_close", beforeCloseOps.Load())
	c.Stat("ops_after_close", afterCloseOps.Load())
	c.Stat("ops_after_close_failed", afterCloseFailed.Load())
	c.Stat("shared_iterator_calls", sharedCalls.Load())
	c.Stat("bg_maintenance_in_flight_when_close_was_called", bgInFlight.Load())
	c.Stat("puts_of_1MiB_values", bigPuts.Load())
	if v := violated.Load(); v != nil {
		p := v.([2]string)
		c.Violation(p[0], p[1]+fmt.Sprintf(" (fs %s)", fsk), map[string]interface{}{"hash_seed": seed, "fs": fsk, "config": cfg})
		return
	}
	if closeErr != nil {
		c.Violation("close-error", fmt.Sprintf("Close racing with other calls returned an error: %v (fs %s)", closeErr, fsk), map[string]interface{}{"hash_seed": seed, "fs": fsk, "config": cfg})
		return
	}
	// overlap matrix
	sort.Slice(ivals, func(i, j int) bool { return ivals[i].t0 < ivals[j].t0 })
	pairs := map[string]bool{}
	for i := range ivals {
		for j := i + 1; j < len(ivals) && j < i+40; j++ {
			if ivals[j].t0 > ivals[i].t1 {
				break
			}
			a, b := ivals[i].m, ivals[j].m
			if a > b {
				a, b = b, a
			}
			pairs[a+"|"+b] = true
		}
		if ivals[i].t0 < closeT1 && ivals[i].t1 > closeT0 {
			pairs["Close|"+ivals[i].m] = true
			c.Stat("close_raced_with_ops", 1)
		}
	}
	for p := range pairs {
		c.Distinct(fsk, p)
	}
	c.Stat("method_pairs_overlapped", int64(len(pairs)))
	// goroutines left behind
	deadline := time.Now().Add(30 * time.Second)
	var left []string
	for {
		left = libraryGoroutines()
		if len(left) == 0 || time.Now().After(deadline) {
			break
		}
		time.Sleep(20 * time.Millisecond)
	}
	if len(left) > 0 {
		c.Violation("goroutine-left-running", fmt.Sprintf("%d goroutine(s) with a library frame are still alive 30 s after Close returned and all callers joined (fs %s, bg worker %v)", len(left), fsk, bg),
			map[string]interface{}{"stacks": left})
		return
	}
	// contents = exactly the effects of the calls that returned nil
	want := core.State{}
	for k, v := range preState {
		want[k] = v
	}
	alt := map[string][]string{}
	for _, st := range states {
		for k, v := range st.expect {
			want[k] = v
		}
		for k, vs := range st.failed {
			alt[k] = vs
		}
	}
	verify := func(e *core.Env, how string) bool {
		rdb, err := e.Open(core.Config{MaxSeg: cfg.MaxSeg, MinSeg: cfg.MinSeg, Frag: cfg.Frag})
		if err != nil {
			c.Violation("reopen-error", fmt.Sprintf("%s after a Close race failed: %v (fs %s)", how, err, fsk), map[string]interface{}{"hash_seed": seed, "fs": fsk, "config": cfg})
			return false
		}
		defer rdb.Close()
		st, err := core.Dump(rdb, nil)
		if err != nil {
			c.Violation("contents-after-close-race", fmt.Sprintf("%s: %v (fs %s)", how, err, fsk), map[string]interface{}{"hash_seed": seed, "fs": fsk, "config": cfg})
			return false
		}
		// a key may also hold the effect of a write that FAILED after its last acknowledged write
		adj := want.Clone()
		for k, vs := range alt {
			got, present := st[k]
			for _, v := range vs {
				if (v == absent && !present) || (present && v == got) {
					if present {
						adj[k] = got
					} else {
						delete(adj, k)
					}
					c.Stat("failed_writes_that_took_effect", 1)
				}
			}
		}
		if !st.Equal(adj) {
			c.Violation("contents-after-close-race", fmt.Sprintf("%s: contents differ from the effects of the calls that returned nil (also allowing the effect of calls that failed): %s (fs %s, bg worker %v)", how, st.Diff(adj, 4), fsk, bg),
				map[string]interface{}{"hash_seed": seed, "fs": fsk, "config": cfg})
			return false
		}
		return true
	}
	// forced recovery on a copy first (the clean reopen below modifies the directory)
	cenv := core.NewEnv(fsk)
	defer cenv.Cleanup()
	if err := env.CopyDirTo(cenv); err == nil {
		cenv.WriteFile(filepath.Join(cenv.Dir, "lock"), nil)
		c.Stat("forced_recoveries", 1)
		if !verify(cenv, "reopening a copy with forced recovery") {
			return
		}
	}
	if !verify(env, "a clean reopen") {
		return
	}
	if c.Case < 2 {
		var ps []string
		for p := range pairs {
			ps = append(ps, p)
		}
		sort.Strings(ps)
		c.Sample(map[string]interface{}{"fs": fsk, "workers": nworkers, "bg_worker": bg, "close_at_op": closeAt, "ops_before_close": beforeCloseOps.Load(),
			"ops_after_close": afterCloseOps.Load(), "failed_after_close": afterCloseFailed.Load(), "overlapped_method_pairs": ps})
	}
}

func goroutineDump() string {
	buf := make([]byte, 1<<23)
	n := runtime.Stack(buf, true)
	return string(buf[:n])
}

var hexAddr = regexp.MustCompile(`\+?0x[0-9a-f]+|(, )?\d+ minutes|(, )?locked to thread`)

// normalizeDump keeps only the goroutines with a library frame, strips addresses and wait durations and sorts
// them, so that two dumps of the same parked state compare equal.
func normalizeDump(d string) string {
	var gs []string
	for _, g := range strings.Split(d, "\n\n") {
		if core.StackHasPogreb(g) {
			gs = append(gs, hexAddr.ReplaceAllString(g, ""))
		}
	}
	sort.Strings(gs)
	return strings.Join(gs, "\n\n")
}

// parkedOnSync reports whether every goroutine with a library frame is parked in a sync primitive.
var notParked string

func parkedOnSync(d string) bool {
	any := false
	for _, g := range strings.Split(d, "\n\n") {
		if !core.StackHasPogreb(g) {
			continue
		}
		any = true
		hdr := strings.SplitN(g, "\n", 2)[0]
		if !(strings.Contains(hdr, "sync.") || strings.Contains(hdr, "semacquire") || strings.Contains(hdr, "chan receive") || strings.Contains(hdr, "select")) {
			notParked = hdr
			return false
		}
	}
	return any
}
