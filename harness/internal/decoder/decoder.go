// Package decoder is an independent, validating reader of pogreb's documented on-disk format version 2
// (docs/design.md, CHANGELOG and the record diagram): a 512-byte header starting with the signature
// "pogreb\x0e\xfd" and a little-endian uint32 format version, followed by records
//
//	key size (2B LE) | record type (1 bit, MSB) + value size (31 bits) (4B LE) | key | value | CRC32-IEEE (4B LE)
//
// where the checksum covers everything before it. Segment files are named "%05d-%d.psg" (physical id,
// sequence id); the log order is ascending sequence id. It shares no code with pogreb.
package decoder

import (
	"encoding/binary"
	"errors"
	"fmt"
	"hash/crc32"
	"sort"
	"strconv"
	"strings"
)

const (
	HeaderSize    = 512
	FormatVersion = 2
)

var Signature = []byte{'p', 'o', 'g', 'r', 'e', 'b', 0x0e, 0xfd}

// Record is one decoded record.
type Record struct {
	Offset int64 // offset of the record in the file
	Size   int64 // encoded size
	Delete bool
	Key    []byte
	Value  []byte
}

var (
	ErrHeader = errors.New("decoder: bad header")
)

// CheckHeader validates the 512-byte file header.
func CheckHeader(data []byte) error {
	if len(data) < HeaderSize {
		return fmt.Errorf("%w: file shorter than header (%d bytes)", ErrHeader, len(data))
	}
	if string(data[:8]) != string(Signature) {
		return fmt.Errorf("%w: signature %x", ErrHeader, data[:8])
	}
	if v := binary.LittleEndian.Uint32(data[8:12]); v != FormatVersion {
		return fmt.Errorf("%w: version %d", ErrHeader, v)
	}
	return nil
}

// DecodeAt decodes the record starting at off; ok is false if no complete, valid record starts there.
func DecodeAt(data []byte, off int64) (rec Record, ok bool) {
	n := int64(len(data))
	if off < 0 || off+6 > n {
		return rec, false
	}
	ks := int64(binary.LittleEndian.Uint16(data[off:]))
	vw := binary.LittleEndian.Uint32(data[off+2:])
	del := vw&(1<<31) != 0
	vs := int64(vw &^ (1 << 31))
	size := 6 + ks + vs + 4
	if off+size > n {
		return rec, false
	}
	body := data[off : off+size-4]
	sum := binary.LittleEndian.Uint32(data[off+size-4:])
	if crc32.ChecksumIEEE(body) != sum {
		return rec, false
	}
	rec = Record{Offset: off, Size: size, Delete: del, Key: data[off+6 : off+6+ks], Value: data[off+6+ks : off+6+ks+vs]}
	return rec, true
}

// ValidPrefix returns the records of the longest valid record prefix of a segment and the offset where it
// ends. The header must be valid.
func ValidPrefix(data []byte) ([]Record, int64, error) {
	if err := CheckHeader(data); err != nil {
		return nil, 0, err
	}
	off := int64(HeaderSize)
	var recs []Record
	for {
		rec, ok := DecodeAt(data, off)
		if !ok {
			return recs, off, nil
		}
		recs = append(recs, rec)
		off += rec.Size
	}
}

// SegmentName is a parsed segment file name.
type SegmentName struct {
	Name string
	ID   uint16
	Seq  uint64
}

// ParseSegmentName parses "%05d-%d.psg" (and the legacy "%05d.psg", sequence 0).
func ParseSegmentName(name string) (SegmentName, bool) {
	if !strings.HasSuffix(name, ".psg") {
		return SegmentName{}, false
	}
	base := strings.TrimSuffix(name, ".psg")
	parts := strings.SplitN(base, "-", 2)
	id, err := strconv.ParseUint(parts[0], 10, 16)
	if err != nil {
		return SegmentName{}, false
	}
	var seq uint64
	if len(parts) == 2 {
		seq, err = strconv.ParseUint(parts[1], 10, 64)
		if err != nil {
			return SegmentName{}, false
		}
	}
	return SegmentName{Name: name, ID: uint16(id), Seq: seq}, true
}

// StrictSegmentName reports whether the name is exactly what fmt.Sprintf("%05d-%d.psg") produces.
func StrictSegmentName(name string) bool {
	sn, ok := ParseSegmentName(name)
	return ok && fmt.Sprintf("%05d-%d.psg", sn.ID, sn.Seq) == name
}

// SortSegments orders segment names by sequence id.
func SortSegments(names []string) []SegmentName {
	var out []SegmentName
	for _, n := range names {
		if sn, ok := ParseSegmentName(n); ok {
			out = append(out, sn)
		}
	}
	sort.SliceStable(out, func(i, j int) bool { return out[i].Seq < out[j].Seq })
	return out
}

// Replay applies the valid record prefix of every segment, in sequence order, to an empty map.
// files maps base file name -> content. It returns the resulting contents and, per segment, the end of the
// valid prefix.
func Replay(files map[string][]byte) (map[string][]byte, map[string]int64, error) {
	var names []string
	for n := range files {
		names = append(names, n)
	}
	sort.Strings(names)
	state := map[string][]byte{}
	ends := map[string]int64{}
	for _, sn := range SortSegments(names) {
		recs, end, err := ValidPrefix(files[sn.Name])
		if err != nil {
			return nil, nil, fmt.Errorf("%s: %w", sn.Name, err)
		}
		ends[sn.Name] = end
		for _, r := range recs {
			if r.Delete {
				delete(state, string(r.Key))
			} else {
				state[string(r.Key)] = append([]byte{}, r.Value...)
			}
		}
	}
	return state, ends, nil
}
