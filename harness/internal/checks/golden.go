package checks

import (
	"encoding/base64"
	"encoding/hex"
	"encoding/json"
	"fmt"
	"math/rand"
	"os"
	"path/filepath"
	"sort"

	"pvh/internal/core"
)

// Golden is one database directory written by the pinned version, with the contents it must open to.
type Golden struct {
	Name    string            `json:"name"`
	Desc    string            `json:"desc"`
	Clean   bool              `json:"clean"`
	Config  core.Config       `json:"config"`
	Files   map[string]string `json:"files"`  // base name -> base64
	Expect  map[string]string `json:"expect"` // hex key -> hex value
	Shape   string            `json:"shape"`
	Version string            `json:"written_by"`
}

func (g *Golden) State() core.State {
	st := core.State{}
	for k, v := range g.Expect {
		kb, _ := hex.DecodeString(k)
		vb, _ := hex.DecodeString(v)
		st[string(kb)] = string(vb)
	}
	return st
}

func snapshotGolden(name, desc string, clean bool, cfg core.Config, env *core.Env, ref core.State, shape string, version string) (*Golden, error) {
	files, err := env.ReadDirFiles(env.Dir)
	if err != nil {
		return nil, err
	}
	g := &Golden{Name: name, Desc: desc, Clean: clean, Config: cfg, Files: map[string]string{}, Expect: map[string]string{}, Shape: shape, Version: version}
	for n, d := range files {
		g.Files[n] = base64.StdEncoding.EncodeToString(d)
	}
	for k, v := range ref {
		g.Expect[hex.EncodeToString([]byte(k))] = hex.EncodeToString([]byte(v))
	}
	return g, nil
}

// GenGolden writes the golden corpus into dir using whatever pogreb version the binary was built against.
func GenGolden(dir, version string) error {
	os.MkdirAll(dir, 0755)
	type spec struct {
		name, desc string
		cfg        core.Config
		keys       core.KeySpec
		nops       int
		compactPct int
		delHeavy   bool
	}
	specs := []spec{
		{name: "empty", desc: "no writes at all", cfg: core.Config{}, keys: core.KeySpec{Plain: 3}, nops: 0},
		{name: "single-segment", desc: "a few dozen keys, one segment, default thresholds", cfg: core.Config{}, keys: core.KeySpec{Plain: 40}, nops: 120},
		{name: "growth-5-levels", desc: "about 800 keys: the index grows through 5 levels", cfg: core.Config{MaxSeg: 1 << 20}, keys: core.KeySpec{Plain: 900, SameHashGroups: 3, SameHashSize: 4}, nops: 2500},
		{name: "chains-freelist", desc: "long overflow chains and a non-empty free list", cfg: core.Config{MaxSeg: 1 << 20}, keys: core.KeySpec{Chain16: 150, Chain3: 120, Plain: 80, SameHashGroups: 2, SameHashSize: 5}, nops: 1500},
		{name: "rollover-6-segments", desc: "small segments: at least 6 of them", cfg: core.Config{MaxSeg: 4096, MinSeg: 1 << 30, Frag: 0.5}, keys: core.KeySpec{Plain: 120}, nops: 500},
		{name: "compacted-reused-ids", desc: "compactions removed segments and their ids were reused", cfg: core.Config{MaxSeg: 2048, MinSeg: 600, Frag: 0.1}, keys: core.KeySpec{Plain: 50, Chain16: 36}, nops: 900, compactPct: 60},
		{name: "deletes", desc: "delete-heavy history with delete records in several segments", cfg: core.Config{MaxSeg: 4096, MinSeg: 1 << 30, Frag: 0.5}, keys: core.KeySpec{Plain: 100, Chain6: 50}, nops: 900, delHeavy: true},
		{name: "long-keys-values", desc: "keys up to 2000 bytes, values up to 1300 bytes, empty key and empty values", cfg: core.Config{MaxSeg: 65536}, keys: core.KeySpec{Plain: 30, LongKeys: 6}, nops: 300},
	}
	var index []string
	for si, sp := range specs {
		for attempt := 0; ; attempt++ {
			if attempt > 50 {
				return fmt.Errorf("golden %s: no clean run in 50 attempts", sp.name)
			}
			rng := rand.New(rand.NewSource(int64(1000*si + attempt)))
			seed := rng.Uint32()
			core.PinSeed(seed)
			ks := core.GenKeys(rng, seed, sp.keys)
			env := core.NewEnv(core.FSOS)
			x, err := core.NewExec(nil, env, sp.cfg, ks.Keys)
			if err != nil {
				return err
			}
			ops := core.GenOps(rng, ks, core.ProgSpec{NOps: sp.nops, CompactPct: sp.compactPct})
			if sp.nops == 0 {
				ops = nil
			}
			ok := true
			for _, op := range ops {
				if sp.delHeavy && op.K == core.OpPut && rng.Intn(3) == 0 {
					op = core.Op{K: core.OpDelete, Key: op.Key}
				}
				if sp.compactPct == 0 && op.K == core.OpCompact {
					continue
				}
				if sig, _ := x.Do(op); sig != "" {
					ok = false // the pinned version has known defects (e.g. duplicate slots): take another program
					break
				}
			}
			if ok {
				if d := x.Verify(); d != "" {
					ok = false
				}
			}
			if !ok {
				x.DB.Close()
				env.Cleanup()
				continue
			}
			_, _, shape := core.CheckIndex(x.DB, env, x.Ref)
			nseg := len(x.DB.VerifSegments())
			shapeStr := fmt.Sprintf("%s segments=%d keys=%d", shape.Key(), nseg, len(x.Ref))
			// unclean image: the directory while the database is open (lock file present, no meta files of this session)
			gu, err := snapshotGolden(sp.name+".unclean", sp.desc+"; directory copied while the database was open (lock present)", false, sp.cfg, env, x.Ref, shapeStr, version)
			if err != nil {
				return err
			}
			if err := x.DB.Close(); err != nil {
				return err
			}
			gc, err := snapshotGolden(sp.name+".clean", sp.desc+"; cleanly closed", true, sp.cfg, env, x.Ref, shapeStr, version)
			if err != nil {
				return err
			}
			// unclean with a torn tail on the newest segment and the metas of the closed session still around
			gt := &Golden{Name: sp.name + ".torn", Desc: sp.desc + "; cleanly closed files plus a lock file and a torn record at the tail of the newest segment", Clean: false,
				Config: sp.cfg, Files: map[string]string{}, Expect: gc.Expect, Shape: shapeStr, Version: version}
			var segs []string
			for n, d := range gc.Files {
				gt.Files[n] = d
				if filepath.Ext(n) == ".psg" {
					segs = append(segs, n)
				}
			}
			sort.Slice(segs, func(i, j int) bool {
				var a, b, c, d int
				fmt.Sscanf(segs[i], "%d-%d.psg", &a, &b)
				fmt.Sscanf(segs[j], "%d-%d.psg", &c, &d)
				return b < d
			})
			if len(segs) > 0 {
				last := segs[len(segs)-1]
				raw, _ := base64.StdEncoding.DecodeString(gt.Files[last])
				rec := encodeRecord([]byte("torn-key"), core.MakeVal(1, 100), false)
				raw = append(raw, rec[:len(rec)-7]...)
				gt.Files[last] = base64.StdEncoding.EncodeToString(raw)
			}
			gt.Files["lock"] = ""
			for _, g := range []*Golden{gc, gu, gt} {
				b, _ := json.Marshal(g)
				if err := os.WriteFile(filepath.Join(dir, g.Name+".json"), b, 0644); err != nil {
					return err
				}
				index = append(index, fmt.Sprintf("%s: %s [%s]", g.Name, g.Desc, g.Shape))
			}
			env.Cleanup()
			break
		}
	}
	sort.Strings(index)
	b, _ := json.MarshalIndent(map[string]interface{}{"written_by": version, "goldens": index}, "", " ")
	return os.WriteFile(filepath.Join(dir, "INDEX.json"), b, 0644)
}

// LoadGoldens reads the corpus.
func LoadGoldens(dir string) ([]*Golden, error) {
	ents, err := os.ReadDir(dir)
	if err != nil {
		return nil, err
	}
	var out []*Golden
	for _, e := range ents {
		if filepath.Ext(e.Name()) != ".json" || e.Name() == "INDEX.json" {
			continue
		}
		b, err := os.ReadFile(filepath.Join(dir, e.Name()))
		if err != nil {
			return nil, err
		}
		g := &Golden{}
		if err := json.Unmarshal(b, g); err != nil {
			return nil, fmt.Errorf("%s: %w", e.Name(), err)
		}
		out = append(out, g)
	}
	sort.Slice(out, func(i, j int) bool { return out[i].Name < out[j].Name })
	return out, nil
}
