package core

import (
	"sync"
	"sync/atomic"
)

// Clock hands out tickets from one atomic counter: a total order consistent with real time.
type Clock struct{ n atomic.Int64 }

func (c *Clock) Tick() int64 { return c.n.Add(1) }

// OpRec is one recorded client call.
type OpRec struct {
	Client int
	Kind   string // put del get getappend has count
	Key    string
	Val    string // written value (put) / returned value (get, getappend)
	Found  bool   // get/getappend/has result
	N      uint32 // count result
	Err    string
	Call   int64
	Ret    int64
}

// Recorder collects per-client histories without synchronisation between clients.
type Recorder struct {
	Clock Clock
	mu    sync.Mutex
	bufs  map[int]*[]OpRec
}

func NewRecorder() *Recorder { return &Recorder{bufs: map[int]*[]OpRec{}} }

// Client returns the private buffer of a client (call once per goroutine).
func (r *Recorder) Client(id int) *[]OpRec {
	r.mu.Lock()
	defer r.mu.Unlock()
	b := &[]OpRec{}
	r.bufs[id] = b
	return b
}

// All merges the histories.
func (r *Recorder) All() []OpRec {
	r.mu.Lock()
	defer r.mu.Unlock()
	var out []OpRec
	for _, b := range r.bufs {
		out = append(out, *b...)
	}
	return out
}
