#!/usr/bin/env python3
"""Runs checks against every seeded change (in scratch worktrees, never in /repo) and records the outcome in meta.json.
usage: tools/seed_matrix.py [--only ID-prefix] [--checks own|C04,C08] [--tier quick]"""
import json, os, re, subprocess, sys, threading, collections, argparse
ap = argparse.ArgumentParser()
ap.add_argument('--only', default='')
ap.add_argument('--checks', default='own')
ap.add_argument('--tier', default='quick')
ap.add_argument('--jobs', type=int, default=4)
a = ap.parse_args()
SEEDED = '/verif/seeded'
WT = '/tmp/wt'
head = subprocess.run(['git', '-C', '/repo', 'rev-parse', 'HEAD'], capture_output=True, text=True).stdout.strip()
groups = collections.defaultdict(list)
for d in sorted(os.listdir(SEEDED)):
    if a.only and not d.startswith(a.only):
        continue
    meta = json.load(open(f'{SEEDED}/{d}/meta.json'))
    groups[meta['breaks_property']].append(d)
lock = threading.Lock()
sem = threading.Semaphore(a.jobs)
def work(prop, entries):
    wt = f'{WT}/{prop}'
    if not os.path.isdir(wt):
        subprocess.run(['git', '-C', '/repo', 'worktree', 'add', '-q', '--detach', wt, 'HEAD'])
    for d in entries:
        with sem:
            meta_path = f'{SEEDED}/{d}/meta.json'
            meta = json.load(open(meta_path))
            checks = [prop] if a.checks == 'own' else a.checks.split(',')
            for ck in checks:
                subprocess.run(f'cd {wt} && git checkout -q -- . && git clean -fdq && git checkout -q --detach {head} && git apply {SEEDED}/{d}/patch.diff', shell=True, check=True)
                r = subprocess.run(['/verif/tools/check_against.sh', wt, ck, a.tier], capture_output=True, text=True)
                subprocess.run(f'cd {wt} && git checkout -q -- . && git clean -fdq', shell=True)
                txt = r.stdout + r.stderr
                sig = re.search(r'^  case [-0-9]+: \[([^\]]*)\]', txt, re.M)
                wall = re.search(r'wall=([0-9.]+)s', txt)
                run = {"check": ck, "tier": a.tier, "detected": 'VIOLATION property=' in txt, "exit": r.returncode,
                       "first_signature": sig.group(1) if sig else None, "wall_s": float(wall.group(1)) if wall else None,
                       "harness_commit_note": "final harness of this session"}
                with lock:
                    meta = json.load(open(meta_path))
                    runs = [x for x in meta.get('detection_runs', []) if not (x['check'] == ck and x['tier'] == a.tier)]
                    runs.append(run)
                    meta['detection_runs'] = sorted(runs, key=lambda x: (x['check'], x['tier']))
                    meta['applies_to_repo_commit'] = head[:7]
                    json.dump(meta, open(meta_path, 'w'), indent=1)
                    print(f"{d:12s} {ck} {a.tier} detected={run['detected']} exit={r.returncode} wall={run['wall_s']} {run['first_signature']}", flush=True)
threads = [threading.Thread(target=work, args=(p, e)) for p, e in groups.items()]
[t.start() for t in threads]
[t.join() for t in threads]
