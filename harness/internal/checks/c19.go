package checks

import (
	"encoding/binary"
	"fmt"
	"path/filepath"
	"runtime"

	"pvh/internal/core"
	"pvh/internal/crashfs"
)

func init() {
	core.Register(&core.Check{
		ID:    "C19",
		Level: "exploration",
		Rule: "one case = one unclean database image (small: a few KiB, or medium: ~100-300 KiB, 1-4 segments) x a list of 6-byte record headers appended after " +
			"the last valid record of its newest (or a middle) segment: key size in {0,1,255,4096,65535}, value size in {2^15,2^16,2^20,2^24,2^27,2^30,2^31-1,PRNG}, " +
			"both record types, followed by 0/1/10/64 further bytes. For every header the recovering Open is measured twice on the same file system with the " +
			"same pinned hash seed - image with the tail and the same image without it - with differential meters: runtime TotalAlloc around Open, bytes read " +
			"from segment files and the largest single read request (CrashFS). Violation if alloc(with)-alloc(without) > 2*tail bytes + 64 KiB, or segment " +
			"bytes read differ by more than 2*tail + 64 KiB, or a single read request exceeds the largest file + 64 KiB, or Open fails, or the contents differ " +
			"from the decoder's replay of the valid prefix. No timing is judged. evaluations = measured recoveries of images with a tail; distinct_nontrivial = " +
			"distinct (key size, value size, type, extra bytes, file system) with a claimed record size larger than the bytes present.",
		Assumptions: []string{
			"runtime.MemStats.TotalAlloc is a faithful cumulative allocation meter; the child process runs one case at a time with no other goroutine allocating",
			"hash seed pinned so that both measured recoveries rebuild the same index",
		},
		Cases: func(tier string) int {
			if tier == "thorough" {
				return 400
			}
			return 16
		},
		Run:      runC19,
		MaxProcs: 8,
		Require:  []string{"headers_measured", "fs_crash", "fs_mem", "fs_os", "fs_osmmap", "claims_ge_1GiB", "type_delete", "type_put"},
	})
}

type openMeter struct {
	sizes    map[string]int64 // segment file sizes after the recovering Open
	alloc    uint64
	segRead  int64
	maxReq   int64
	maxFile  int64
	state    core.State
	err      error
}

func measureOpen(kind core.FSKind, im crashfs.Image, cfg core.Config, keys [][]byte) openMeter {
	var m openMeter
	env, err := installImage(kind, im)
	if err != nil {
		m.err = err
		return m
	}
	defer env.Cleanup()
	for _, d := range im {
		if int64(len(d)) > m.maxFile {
			m.maxFile = int64(len(d))
		}
	}
	if env.Crash != nil {
		// room for the call log of the recovering Open: the harness' own log must not reallocate while allocations are metered
		env.Crash.Log = make([]crashfs.Op, 0, 8192)
	}
	var m0, m1 runtime.MemStats
	runtime.GC()
	runtime.ReadMemStats(&m0)
	db, err := env.Open(cfg)
	runtime.ReadMemStats(&m1)
	m.alloc = m1.TotalAlloc - m0.TotalAlloc
	if env.Crash != nil {
		m.segRead = env.Crash.ReadBytes[".psg"]
		m.maxReq = env.Crash.MaxReadReq
	}
	if err != nil {
		m.err = err
		return m
	}
	defer db.Close()
	m.sizes = map[string]int64{}
	for n, sz := range env.List(env.Dir) {
		if filepath.Ext(n) == ".psg" {
			m.sizes[n] = sz
		}
	}
	m.state, m.err = core.Dump(db, keys)
	return m
}

func runC19(c *core.Ctx) {
	rng := c.Rng
	seed := rng.Uint32()
	nseg := 1 + c.Case%4
	tb, err := buildTailBase(rng, seed, nseg, rng.Intn(512), false)
	if err != nil {
		c.Violation("setup-error", err.Error(), nil)
		return
	}
	if c.Case%2 == 1 {
		// medium base: grow the newest segment image with valid records (keeps the image well-formed)
		last := tb.Segments[len(tb.Segments)-1]
		d := append([]byte(nil), tb.Image[last]...)
		for i := 0; len(d) < 100000+rng.Intn(200000); i++ {
			d = append(d, encodeRecord([]byte(fmt.Sprintf("bulk-%d", i%500)), core.MakeVal(9000+i, 100+rng.Intn(300)), false)...)
		}
		tb.Image[last] = d
		c.Stat("medium_bases", 1)
	}
	target := tb.Segments[len(tb.Segments)-1]
	if nseg > 1 && c.Case%4 == 3 {
		target = tb.Segments[0]
		c.Stat("target_middle_segment", 1)
	}
	if c.Case%8 == 4 || c.Case%8 == 6 {
		// the garbage header is the FIRST thing after the 512-byte header of a segment that holds no record yet
		// (seeded/R8-C19-m1: a damaged segment truncated only if it holds a valid record)
		target = tb.addEmptyNewest()
		c.Stat("target_header_only_segment", 1)
	}
	keySizes := []uint16{0, 1, 255, 4096, 65535}
	valSizes := []uint32{1 << 15, 1 << 16, 1 << 20, 1 << 24, 1 << 27, 1 << 30, 1<<31 - 1, uint32(rng.Int31())}
	extras := []int{0, 1, 10, 64}
	type hdr struct {
		ks    uint16
		vs    uint32
		del   bool
		extra int
	}
	var hdrs []hdr
	for _, ks := range keySizes {
		for _, vs := range valSizes {
			for _, del := range []bool{false, true} {
				for _, ex := range extras {
					hdrs = append(hdrs, hdr{ks, vs, del, ex})
				}
			}
		}
	}
	rng.Shuffle(len(hdrs), func(i, j int) { hdrs[i], hdrs[j] = hdrs[j], hdrs[i] })
	n := 24
	if c.Thorough() {
		n = 80
	}
	hdrs = hdrs[:n]
	want, wantEnds, err := expectedFromImage(tb.Image)
	if err != nil {
		c.Violation("setup-error", err.Error(), nil)
		return
	}
	probe := tb.Keys
	// baselines per file system: same image without the tail, three times (noise gauge)
	kinds := []core.FSKind{core.FSCrash, core.FSMem, core.FSOS, core.FSOSMMap}
	baseAllocMin := map[core.FSKind]uint64{}
	baseAllocMax := map[core.FSKind]uint64{}
	var baseSegRead int64
	for _, k := range kinds {
		for i := 0; i < 3; i++ {
			m := measureOpen(k, tb.Image, tb.Cfg, probe)
			if m.err != nil {
				c.Violation("recover-error", fmt.Sprintf("recovering the base image without a tail failed on %s: %v", k, m.err), nil)
				return
			}
			if i == 0 || m.alloc < baseAllocMin[k] {
				baseAllocMin[k] = m.alloc
			}
			if m.alloc > baseAllocMax[k] {
				baseAllocMax[k] = m.alloc
			}
			if k == core.FSCrash {
				baseSegRead = m.segRead
			}
		}
		c.StatMax("max_baseline_alloc_noise_bytes", int64(baseAllocMax[k]-baseAllocMin[k]))
	}
	var totalSeg int64
	for _, s := range tb.Segments {
		totalSeg += int64(len(tb.Image[s]))
	}
	c.StatMax("max_abs_alloc_per_segment_byte_x100", int64(baseAllocMax[core.FSCrash]*100)/totalSeg)
	samples := []interface{}{}
	for hi, h := range hdrs {
		tail := make([]byte, 6+h.extra)
		binary.LittleEndian.PutUint16(tail, h.ks)
		vw := h.vs
		if h.del {
			vw |= 1 << 31
			c.Stat("type_delete", 1)
		} else {
			c.Stat("type_put", 1)
		}
		binary.LittleEndian.PutUint32(tail[2:], vw)
		for i := 6; i < len(tail); i++ {
			tail[i] = byte(rng.Intn(256))
		}
		if h.vs >= 1<<30 {
			c.Stat("claims_ge_1GiB", 1)
		}
		im := tb.withTail(target, tail)
		for _, k := range []core.FSKind{core.FSCrash, kinds[1+hi%3]} {
			m := measureOpen(k, im, tb.Cfg, probe)
			c.Eval(1)
			c.Stat("headers_measured", 1)
			c.Stat("fs_"+string(k), 1)
			c.Distinct(h.ks, h.vs, h.del, h.extra, k)
			fail := func(sig, detail string) {
				c.Violation(sig, fmt.Sprintf("%s; header claims key %d bytes, value %d bytes, delete=%v, followed by %d bytes, appended to %s of %s; fs %s",
					detail, h.ks, h.vs, h.del, h.extra, filepath.Base(target), tb.Desc, k),
					map[string]interface{}{"hash_seed": seed, "tail_hex": fmt.Sprintf("%x", tail), "fs": k, "image": core.DescribeImage(im)})
			}
			if m.err != nil {
				fail("recover-error", fmt.Sprintf("recovering Open failed: %v", m.err))
				continue
			}
			if !m.state.Equal(want) {
				fail("recovered-contents", "contents differ from the valid prefix: "+m.state.Diff(want, 3))
				continue
			}
			// the tail must be discarded as in C08: every segment ends where its valid prefix ends
			for n, end := range wantEnds {
				if got, ok := m.sizes[n]; ok && got != end {
					fail("segment-length", fmt.Sprintf("segment %s is %d bytes after recovery, its valid prefix ends at %d (the tail was not discarded)", n, got, end))
				}
			}
			allowed := uint64(2*len(tail) + 64<<10)
			if m.alloc > baseAllocMin[k] && m.alloc-baseAllocMin[k] > allowed {
				fail("alloc-proportional-to-claim", fmt.Sprintf("Open allocated %d bytes with the tail vs %d..%d without it (difference %d > allowed %d)", m.alloc, baseAllocMin[k], baseAllocMax[k], m.alloc-baseAllocMin[k], allowed))
			}
			if k == core.FSCrash {
				if d := m.segRead - baseSegRead; d > int64(2*len(tail)+64<<10) {
					fail("reads-proportional-to-claim", fmt.Sprintf("Open read %d segment bytes with the tail vs %d without", m.segRead, baseSegRead))
				}
				if m.maxReq > m.maxFile+64<<10 {
					fail("read-request-proportional-to-claim", fmt.Sprintf("a single read request asked for %d bytes; the largest file has %d", m.maxReq, m.maxFile))
				}
				if m.alloc > baseAllocMin[k] {
					c.StatMax("max_alloc_diff_bytes", int64(m.alloc-baseAllocMin[k]))
				}
			}
			if c.Violations() >= 3 {
				return
			}
		}
		if c.Case == 0 && len(samples) < 4 {
			samples = append(samples, map[string]interface{}{"base": tb.Desc, "key_size": h.ks, "value_size": h.vs, "delete": h.del, "extra_bytes": h.extra})
		}
	}
	if c.Case == 0 {
		c.Sample(samples)
	}
}
