#!/usr/bin/env python3
"""Regenerates the seeded-change table of DESIGN.md (between the SEEDED-TABLE markers) from seeded/*/meta.json."""
import json, os, re
rows = []
controls = []
for d in sorted(os.listdir('/verif/seeded')):
    m = json.load(open(f'/verif/seeded/{d}/meta.json'))
    prop = m['breaks_property']
    own = [r for r in m['detection_runs'] if r['check'] == prop and r['tier'] == 'quick']
    others = [r for r in m['detection_runs'] if r['detected'] and (r['check'] != prop or r['tier'] != 'quick')]
    if own and own[-1]['detected']:
        o = f"yes (`{own[-1]['first_signature']}`)"
    elif own:
        o = "no"
    else:
        o = "not run"
    oth = ', '.join(f"{r['check']}{' thorough' if r['tier'] != 'quick' else ''} (`{r['first_signature']}`)" for r in others)
    if m.get('control'):
        o = "silent (as it must be)" if own and not own[-1]['detected'] else "FALSE ALARM"
        controls.append(d)
    rows.append((d, prop, m['change'], m['needs_to_manifest'], o, oth))
out = ["| seeded change | breaks | what it changes | caught by its own property's quick check | also caught by (quick unless marked thorough) |", "|---|---|---|---|---|"]
for d, prop, ch, need, o, oth in rows:
    out.append(f"| `{d}` | {prop} | {ch}; needs: {need} | {o} | {oth} |")
real = [r for r in rows if r[0] not in controls]
n_own = sum(1 for r in real if r[4].startswith('yes'))
n_any = sum(1 for r in real if r[4].startswith('yes') or r[5])
summary = f"{len(real)} seeded changes (+{len(controls)} neutral control); {n_own} caught by the quick check of the property they were written against, {n_any} caught by at least one check (quick, or thorough where marked)."
text = summary + "\n\n" + "\n".join(out)
p = '/verif/DESIGN.md'
s = open(p).read()
a = s.index('<!-- SEEDED-TABLE-BEGIN -->') + len('<!-- SEEDED-TABLE-BEGIN -->')
b = s.index('<!-- SEEDED-TABLE-END -->')
s = s[:a] + "\n" + text + "\n" + s[b:]
open(p, 'w').write(s)
print(summary)
print("uncaught:", [r[0] for r in real if not (r[4].startswith('yes') or r[5])])
