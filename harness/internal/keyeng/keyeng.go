// Package keyeng builds keys with chosen MurmurHash3-32 values (the hash pogreb's index uses).
// MurmurHash3_x86_32 is invertible block by block: given the state before a 4-byte block and the state
// wanted after it, the block is determined. Written from the published algorithm, shares no code with pogreb.
package keyeng

import "math/bits"

const (
	c1 uint32 = 0xcc9e2d51
	c2 uint32 = 0x1b873593
)

func modinv(a uint32) uint32 { // inverse of odd a modulo 2^32 (Newton iteration)
	x := a
	for i := 0; i < 5; i++ {
		x *= 2 - a*x
	}
	return x
}

func fmix(h uint32) uint32 {
	h ^= h >> 16
	h *= 0x85ebca6b
	h ^= h >> 13
	h *= 0xc2b2ae35
	h ^= h >> 16
	return h
}

func fmixInv(h uint32) uint32 {
	h ^= h >> 16
	h *= modinv(0xc2b2ae35)
	h ^= h>>13 ^ h>>26
	h *= modinv(0x85ebca6b)
	h ^= h >> 16
	return h
}

func mixBlock(h, k uint32) uint32 {
	k *= c1
	k = bits.RotateLeft32(k, 15)
	k *= c2
	h ^= k
	h = bits.RotateLeft32(h, 13)
	return h*5 + 0xe6546b64
}

func tailMix(tail []byte) uint32 {
	var k uint32
	switch len(tail) {
	case 3:
		k ^= uint32(tail[2]) << 16
		fallthrough
	case 2:
		k ^= uint32(tail[1]) << 8
		fallthrough
	case 1:
		k ^= uint32(tail[0])
		k *= c1
		k = bits.RotateLeft32(k, 15)
		k *= c2
	}
	return k
}

// Sum is an independent implementation of MurmurHash3_x86_32.
func Sum(seed uint32, data []byte) uint32 {
	h := seed
	n := len(data)
	for len(data) >= 4 {
		k := uint32(data[0]) | uint32(data[1])<<8 | uint32(data[2])<<16 | uint32(data[3])<<24
		h = mixBlock(h, k)
		data = data[4:]
	}
	h ^= tailMix(data)
	h ^= uint32(n)
	return fmix(h)
}

// Solve returns prefix | b | tail where b is the 4-byte block that makes the hash of the whole key equal
// target. len(prefix) must be a multiple of 4 and len(tail) < 4.
func Solve(seed uint32, prefix, tail []byte, target uint32) []byte {
	if len(prefix)%4 != 0 || len(tail) > 3 {
		panic("keyeng: bad shape")
	}
	h := seed
	for p := prefix; len(p) >= 4; p = p[4:] {
		k := uint32(p[0]) | uint32(p[1])<<8 | uint32(p[2])<<16 | uint32(p[3])<<24
		h = mixBlock(h, k)
	}
	n := len(prefix) + 4 + len(tail)
	// state wanted after the solved block
	s := fmixInv(target) ^ uint32(n) ^ tailMix(tail)
	t := (s - 0xe6546b64) * modinv(5)
	t = bits.RotateLeft32(t, -13)
	k := t ^ h
	k *= modinv(c2)
	k = bits.RotateLeft32(k, -15)
	k *= modinv(c1)
	out := make([]byte, 0, n)
	out = append(out, prefix...)
	out = append(out, byte(k), byte(k>>8), byte(k>>16), byte(k>>24))
	out = append(out, tail...)
	return out
}

// Key8 returns an 8-byte key whose first block encodes a and whose hash is target.
func Key8(seed, a, target uint32) []byte {
	return Solve(seed, []byte{byte(a), byte(a >> 8), byte(a >> 16), byte(a >> 24)}, nil, target)
}
