package checks

import "math/rand"

func newRand(seed int64) *rand.Rand { return rand.New(rand.NewSource(seed)) }
