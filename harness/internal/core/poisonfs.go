package core

import (
	"os"
	"sync"

	"github.com/akrylysov/pogreb/fs"
)

// PoisonFS wraps a FileSystem: Slice hands out private buffers which are all overwritten with 0xDB when
// the harness calls Poison (right after an API call returned). Memory obtained from Slice may be unmapped
// or reused by any later call, so nothing returned to the caller may alias it.
type PoisonFS struct {
	fs.FileSystem
	mu       sync.Mutex
	out      [][]byte
	Poisoned int64
}

func NewPoisonFS(inner fs.FileSystem) *PoisonFS { return &PoisonFS{FileSystem: inner} }

type poisonFile struct {
	fs.File
	p *PoisonFS
}

func (p *PoisonFS) OpenFile(name string, flag int, perm os.FileMode) (fs.File, error) {
	f, err := p.FileSystem.OpenFile(name, flag, perm)
	if err != nil {
		return nil, err
	}
	return &poisonFile{File: f, p: p}, nil
}

func (f *poisonFile) Slice(start, end int64) ([]byte, error) {
	b, err := f.File.Slice(start, end)
	if err != nil {
		return nil, err
	}
	c := make([]byte, len(b))
	copy(c, b)
	f.p.mu.Lock()
	f.p.out = append(f.p.out, c)
	f.p.mu.Unlock()
	return c, nil
}

// Poison overwrites every buffer handed out since the last call.
func (p *PoisonFS) Poison() {
	p.mu.Lock()
	defer p.mu.Unlock()
	for _, b := range p.out {
		for i := range b {
			b[i] = 0xDB
		}
		p.Poisoned++
	}
	p.out = p.out[:0]
}
