package core

import (
	"errors"
	"os"
	"sync"

	"github.com/akrylysov/pogreb/fs"
)

// ErrInjected is the error returned by injected faults.
var ErrInjected = errors.New("injected I/O fault")

// FaultFS wraps a FileSystem and fails exactly one mutating/opening call: the FailAt-th one (0-based)
// counted from the moment Arm is called. Kinds counted: OpenFile, file Write/WriteAt/Sync/Truncate, Remove, Rename.
type FaultFS struct {
	fs.FileSystem
	mu     sync.Mutex
	armed  bool
	n      int
	FailAt int
	Fired  string // description of the call that was failed
	Calls  int    // calls seen while armed
	// Only, when set (e.g. "read"), restricts counting and failing to calls of that kind.
	Only string
	// Reads makes Read/ReadAt/Slice count (and fail) too.
	Reads bool
	// nextKind, when set, fails the next call whose description starts with it (e.g. "sync "), once.
	nextKind string
	// nextSuffix, when set with nextKind, additionally requires the file name to end with it (e.g. ".psg").
	nextSuffix string
	// nextPartial makes the failed write pass a prefix (half of the bytes, at least 1) through before failing.
	nextPartial bool
	// partialNow is set by hit for the call that is being failed when nextPartial was set.
	partialNow bool
	// nextMinOff, when > 0, restricts FailNextWrite to WriteAt calls at an offset >= nextMinOff (record appends, not
	// the header of a new file).
	nextMinOff int64
}

// FailNextWrite fails the next write to a file whose name ends with suffix, once. With partial the first half of
// the bytes reaches the file and the call returns (n>0, ErrInjected); otherwise nothing is written.
func (f *FaultFS) FailNextWrite(suffix string, partial bool, minOff int64) {
	f.mu.Lock()
	f.nextMinOff = minOff
	f.nextKind = "write "
	f.nextSuffix = suffix
	f.nextPartial = partial
	f.Fired = ""
	f.mu.Unlock()
}

// ClearNext cancels a pending FailNext.
func (f *FaultFS) ClearNext() {
	f.mu.Lock()
	f.nextKind, f.nextSuffix, f.nextPartial, f.nextMinOff = "", "", false, 0
	f.mu.Unlock()
}

// FailNext fails the next call of the given kind ("sync", "write", "open", "read", ...), once.
func (f *FaultFS) FailNext(kind string) {
	f.mu.Lock()
	f.nextKind = kind + " "
	f.nextSuffix, f.nextPartial, f.nextMinOff = "", false, 0
	f.Fired = ""
	f.mu.Unlock()
}

func NewFaultFS(inner fs.FileSystem) *FaultFS { return &FaultFS{FileSystem: inner, FailAt: -1} }

// Arm starts counting; the failAt-th call from now fails (-1: count only).
func (f *FaultFS) Arm(failAt int) {
	f.mu.Lock()
	f.armed, f.n, f.FailAt, f.Fired, f.Calls = true, 0, failAt, "", 0
	f.mu.Unlock()
}

func (f *FaultFS) Disarm() {
	f.mu.Lock()
	f.armed = false
	f.mu.Unlock()
}

func (f *FaultFS) hit(desc string) bool { return f.hitOff(desc, -1) }

// hitOff is hit for a write at a known offset (-1: unknown).
func (f *FaultFS) hitOff(desc string, off int64) bool {
	f.mu.Lock()
	defer f.mu.Unlock()
	f.partialNow = false
	if f.nextKind != "" && (f.nextMinOff == 0 || off >= f.nextMinOff) && len(desc) >= len(f.nextKind) && desc[:len(f.nextKind)] == f.nextKind &&
		(f.nextSuffix == "" || (len(desc) >= len(f.nextSuffix) && desc[len(desc)-len(f.nextSuffix):] == f.nextSuffix)) {
		f.partialNow = f.nextPartial
		f.nextKind, f.nextSuffix, f.nextPartial, f.nextMinOff = "", "", false, 0
		f.Fired = desc
		return true
	}
	if !f.armed {
		return false
	}
	if f.Only != "" && !(len(desc) > len(f.Only) && desc[:len(f.Only)] == f.Only) {
		return false
	}
	i := f.n
	f.n++
	f.Calls++
	if i == f.FailAt {
		f.Fired = desc
		return true
	}
	return false
}

func (f *FaultFS) OpenFile(name string, flag int, perm os.FileMode) (fs.File, error) {
	if f.hit("open " + name) {
		return nil, ErrInjected
	}
	file, err := f.FileSystem.OpenFile(name, flag, perm)
	if err != nil {
		return nil, err
	}
	return &faultFile{File: file, f: f, name: name}, nil
}

func (f *FaultFS) Remove(name string) error {
	if f.hit("remove " + name) {
		return ErrInjected
	}
	return f.FileSystem.Remove(name)
}

func (f *FaultFS) Rename(a, b string) error {
	if f.hit("rename " + a) {
		return ErrInjected
	}
	return f.FileSystem.Rename(a, b)
}

type faultFile struct {
	fs.File
	f    *FaultFS
	name string
}

// takePartial reports (and clears) whether the call just failed by hit is to write a prefix first.
func (f *FaultFS) takePartial() bool {
	f.mu.Lock()
	defer f.mu.Unlock()
	p := f.partialNow
	f.partialNow = false
	return p
}

func (h *faultFile) Write(p []byte) (int, error) {
	if h.f.hit("write " + h.name) {
		if h.f.takePartial() && len(p) > 1 {
			n, _ := h.File.Write(p[:len(p)/2])
			return n, ErrInjected
		}
		return 0, ErrInjected
	}
	return h.File.Write(p)
}

func (h *faultFile) WriteAt(p []byte, off int64) (int, error) {
	if h.f.hitOff("write "+h.name, off) {
		if h.f.takePartial() && len(p) > 1 {
			n, _ := h.File.WriteAt(p[:len(p)/2], off)
			return n, ErrInjected
		}
		return 0, ErrInjected
	}
	return h.File.WriteAt(p, off)
}

func (h *faultFile) Sync() error {
	if h.f.hit("sync " + h.name) {
		return ErrInjected
	}
	return h.File.Sync()
}

func (h *faultFile) Truncate(size int64) error {
	if h.f.hit("truncate " + h.name) {
		return ErrInjected
	}
	return h.File.Truncate(size)
}

func (h *faultFile) Read(p []byte) (int, error) {
	if h.f.Reads && h.f.hit("read "+h.name) {
		return 0, ErrInjected
	}
	return h.File.Read(p)
}

func (h *faultFile) ReadAt(p []byte, off int64) (int, error) {
	if h.f.Reads && h.f.hit("read "+h.name) {
		return 0, ErrInjected
	}
	return h.File.ReadAt(p, off)
}

func (h *faultFile) Slice(start, end int64) ([]byte, error) {
	if h.f.Reads && h.f.hit("read "+h.name) {
		return nil, ErrInjected
	}
	return h.File.Slice(start, end)
}
