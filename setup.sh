#!/bin/bash
# Builds the harness binaries from files on disk only (offline). Run once after a fresh restore.
set -eu
cd "$(dirname "$0")"
export GOFLAGS=-mod=mod GOPROXY=off GOSUMDB=off GOTOOLCHAIN=local CGO_ENABLED=1
mkdir -p bin evidence
(cd harness && go build -tags verif -o ../bin/pvh ./cmd/pvh)
(cd harness && go build -tags verif -race -o ../bin/pvh-race ./cmd/pvh)
echo "setup ok: $(ls bin | tr '\n' ' ')"
