package checks

import (
	"fmt"
	"os"
	"path/filepath"
	"sort"
	"sync"
	"sync/atomic"
	"time"

	"github.com/akrylysov/pogreb"

	"pvh/internal/core"
)

func init() {
	core.Register(&core.Check{
		ID:       "C12",
		Level:    "exploration",
		Race:     true,
		RaceCase: func(idx int) bool { return idx%2 == 1 },
		Rule: "two kinds of cases. (d) deterministic: a single goroutine builds a database (rollover every few puts, fragmented segments), calls Backup, and - through " +
			"the verif yield hooks right after Backup captured the segment list/sizes and after every copied segment - performs further Put/Delete calls (enough " +
			"to roll the log over once or several times, deleting and overwriting keys whose segments were already copied) and an attempted Compact. (g) goroutines, " +
			"race-detector build: 1-4 sequential writers with disjoint key ranges, background compaction at 1 ms, and a backup goroutine taking 6-12 backups; all " +
			"calls carry tickets from one atomic counter. Oracle for every backup: Backup returns nil; the directory opens (recovery) and reads back consistently; " +
			"for each writer the backup's projection on its keys equals the state after some prefix n_w of its calls with acked-before-Backup-call <= n_w <= " +
			"issued-before-Backup-return; a common instant exists for the chosen prefixes (some t with call(n_w) <= t <= return(n_w+1) for every writer); the " +
			"source database afterwards equals its reference. evaluations = backups judged; distinct_nontrivial = distinct (kind, fs, segments captured, " +
			"rollovers during the copy, writes during the backup>0) observations.",
		Assumptions: []string{
			"writers are sequential and own disjoint keys, so per-writer prefixes are well defined",
			"when several prefixes give the same projection any of them is accepted",
		},
		Cases: func(tier string) int {
			if tier == "thorough" {
				return 3000
			}
			return 64
		},
		Run:     runC12,
		Require: []string{"backups_judged", "backups_deterministic", "backups_concurrent", "rollover_during_backup", "writes_during_backup", "compact_attempt_during_backup", "sessions_started_by_truncating_recovery", "fs_mem", "fs_os", "fs_osmmap"},
	})
}

func runC12(c *core.Ctx) {
	if c.Case%2 == 0 {
		runC12Deterministic(c)
	} else {
		runC12Goroutines(c)
	}
}

type wop struct {
	key, val string
	del      bool
	call     int64
	ret      int64
}

// openBackup opens a backup directory and reads it back.
func openBackup(env *core.Env, dir string, cfg core.Config) (core.State, error) {
	benv := *env
	benv.Dir = dir
	rec0 := core.Recoveries()
	db, err := benv.Open(core.Config{MaxSeg: cfg.MaxSeg, MinSeg: 1 << 30, Frag: 0.9})
	if err != nil {
		return nil, fmt.Errorf("opening the backup failed: %w", err)
	}
	defer db.Close()
	if core.Recoveries() == rec0 {
		return nil, fmt.Errorf("the backup was opened without replaying the log")
	}
	return core.Dump(db, nil)
}

// matchPrefixes returns the prefixes n (lo <= n <= hi) of ops after which the writer's keys equal proj.
func matchPrefixes(ops []wop, lo, hi int, proj core.State) []int {
	st := core.State{}
	var out []int
	for n := 0; n <= hi && n <= len(ops); n++ {
		if n > 0 {
			o := ops[n-1]
			if o.del {
				delete(st, o.key)
			} else {
				st[o.key] = o.val
			}
		}
		if n >= lo && st.Equal(proj) {
			out = append(out, n)
		}
	}
	return out
}

func runC12Deterministic(c *core.Ctx) {
	rng := c.Rng
	seed := rng.Uint32()
	core.PinSeed(seed)
	fsk := []core.FSKind{core.FSMem, core.FSCrash, core.FSOS, core.FSOSMMap}[(c.Case/2)%4]
	c.Stat("fs_"+string(fsk), 1)
	cfg := core.Config{MaxSeg: []uint32{1024, 2048, 4096}[rng.Intn(3)], MinSeg: 513, Frag: 0.1}
	env := core.NewEnv(fsk)
	defer env.Cleanup()
	db, err := env.Open(cfg)
	if err != nil {
		c.Violation("open-error", err.Error(), nil)
		return
	}
	defer func() { db.Close() }()
	var ops []wop
	ref := core.State{}
	val := 0
	keys := 20 + rng.Intn(40)
	write := func() bool {
		val++
		k := fmt.Sprintf("k%d", rng.Intn(keys))
		o := wop{key: k}
		if rng.Intn(4) == 0 {
			o.del = true
			if err := db.Delete([]byte(k)); err != nil {
				c.Violation("delete-error", err.Error(), nil)
				return false
			}
			delete(ref, k)
		} else {
			o.val = string(core.MakeVal(val, []int{10, 40, 100, 300}[rng.Intn(4)]))
			if err := db.Put([]byte(k), []byte(o.val)); err != nil {
				c.Violation("put-error", err.Error(), nil)
				return false
			}
			ref[k] = o.val
		}
		ops = append(ops, o)
		return true
	}
	if (c.Case/2)%2 == 1 {
		// this session starts with a recovery that discards a torn tail: write, "crash" (directory copied while open, a
		// partial record appended to the newest segment), recover, and take the backups in the recovered session
		for i := 0; i < 40; i++ {
			if !write() {
				return
			}
		}
		nenv := core.NewEnv(fsk)
		defer nenv.Cleanup()
		if err := env.CopyDirTo(nenv); err != nil {
			c.Violation("setup-error", err.Error(), nil)
			return
		}
		segs := db.VerifSegments()
		name := filepath.Join(nenv.Dir, segs[len(segs)-1].Name)
		old, err := nenv.ReadFile(name)
		if err != nil {
			c.Violation("setup-error", err.Error(), nil)
			return
		}
		rec := encodeRecord([]byte("torn"), core.MakeVal(1, 200), false)
		if err := nenv.WriteFile(name, append(old, rec[:len(rec)-9]...)); err != nil {
			c.Violation("setup-error", err.Error(), nil)
			return
		}
		db.Close()
		env = nenv
		db, err = env.Open(cfg)
		if err != nil {
			c.Violation("recover-error", err.Error(), nil)
			return
		}
		c.Stat("sessions_started_by_truncating_recovery", 1)
	}
	if fsk == core.FSOS || fsk == core.FSOSMMap {
		// a Backup that fails (its destination lies below a regular file) must leave the source usable: the next
		// Compact must not be refused as busy and the next Backup must work
		blocker := env.Sub("not-a-directory")
		if err := env.WriteFile(blocker, []byte("x")); err == nil {
			if err := db.Backup(filepath.Join(blocker, "backup")); err == nil {
				c.Violation("backup-error", "Backup into a path below a regular file returned nil", nil)
				return
			}
			c.Stat("failing_backups", 1)
			if _, err := db.Compact(); pogreb.VerifIsBusy(err) {
				c.Violation("source-affected", fmt.Sprintf("after a Backup that failed, Compact is refused as busy: the failed backup left the maintenance lock held (fs %s)", fsk), map[string]interface{}{"fs": fsk})
				return
			}
		}
	}
	nb := 3 + rng.Intn(3)
	for b := 0; b < nb; b++ {
		for i := 0; i < 30+rng.Intn(120); i++ {
			if !write() {
				return
			}
		}
		before := len(ops)
		segsBefore := len(db.VerifSegments())
		during := 0
		compactBusy := 0
		core.SetYield(func(d *pogreb.DB, point string) {
			if d != db || (point != "backup:captured" && point != "backup:segment") {
				return
			}
			n := rng.Intn(25)
			if point == "backup:captured" {
				n = 5 + rng.Intn(60)
			}
			// bounded: every copied segment triggers this hook, and every write may add a segment for the next backup
			for i := 0; i < n && during < 150; i++ {
				if !write() {
					return
				}
				during++
			}
			if rng.Intn(3) == 0 {
				c.Stat("compact_attempt_during_backup", 1)
				if _, err := db.Compact(); pogreb.VerifIsBusy(err) {
					compactBusy++
				}
			}
		})
		bdir := env.Sub(fmt.Sprintf("backup-%d", b))
		err := db.Backup(bdir)
		core.SetYield(nil)
		c.Eval(1)
		c.Stat("backups_judged", 1)
		c.Stat("backups_deterministic", 1)
		c.Stat("writes_during_backup", int64(during))
		c.Stat("compact_refused_busy", int64(compactBusy))
		segsAfter := len(db.VerifSegments())
		if segsAfter > segsBefore {
			c.Stat("rollover_during_backup", int64(segsAfter-segsBefore))
		}
		c.Distinct("d", fsk, segsBefore, segsAfter-segsBefore, during > 0)
		fail := func(sig, detail string) {
			c.Violation(sig, fmt.Sprintf("backup %d (fs %s, %d segments captured, %d writes and %d rollovers while it ran): %s", b, fsk, segsBefore, during, segsAfter-segsBefore, detail),
				map[string]interface{}{"hash_seed": seed, "fs": fsk, "config": cfg, "ops_before_backup": before, "ops_total": len(ops)})
		}
		if err != nil {
			fail("backup-error", "Backup returned an error: "+err.Error())
			return
		}
		st, err := openBackup(env, bdir, cfg)
		if err != nil {
			fail("backup-unusable", err.Error())
			return
		}
		if m := matchPrefixes(ops, before, len(ops), st); len(m) == 0 {
			atCall := core.State{}
			for _, o := range ops[:before] {
				if o.del {
					delete(atCall, o.key)
				} else {
					atCall[o.key] = o.val
				}
			}
			fail("backup-not-a-point-in-time", fmt.Sprintf("the backup equals the database after no prefix of the %d..%d calls issued by the time Backup returned; difference to the state at the call: %s", before, len(ops), st.Diff(atCall, 4)))
			return
		}
		live, err := core.Dump(db, nil)
		if err != nil || !live.Equal(ref) {
			fail("source-affected", fmt.Sprintf("the source database differs from its reference after the backup: %v %s", err, live.Diff(ref, 3)))
			return
		}
		env.RemoveAllIn(bdir)
		if fsk == core.FSOS || fsk == core.FSOSMMap {
			os.RemoveAll(bdir)
		}
		if rng.Intn(2) == 0 {
			db.Compact()
		}
	}
	if c.Case < 2 {
		c.Sample(map[string]interface{}{"kind": "deterministic", "fs": fsk, "config": cfg, "backups": nb, "calls": len(ops)})
	}
}

func runC12Goroutines(c *core.Ctx) {
	rng := c.Rng
	seed := rng.Uint32()
	core.PinSeed(seed)
	fsk := []core.FSKind{core.FSOS, core.FSOSMMap, core.FSMem}[(c.Case/2)%3]
	c.Stat("fs_"+string(fsk), 1)
	cfg := core.Config{MaxSeg: []uint32{1024, 2048, 4096}[rng.Intn(3)], MinSeg: 513, Frag: 0.1, BgCompact: time.Millisecond}
	env := core.NewEnv(fsk)
	defer env.Cleanup()
	db, err := env.Open(cfg)
	if err != nil {
		c.Violation("open-error", err.Error(), nil)
		return
	}
	var clock core.Clock
	nw := 1 + rng.Intn(4)
	perWriter := 300 + rng.Intn(500)
	logs := make([][]wop, nw)
	var wg sync.WaitGroup
	var opErr atomic.Value
	for w := 0; w < nw; w++ {
		wg.Add(1)
		wseed := rng.Int63()
		go func(w int) {
			defer wg.Done()
			r := newRand(wseed)
			for i := 0; i < perWriter; i++ {
				k := fmt.Sprintf("w%d-k%d", w, r.Intn(25))
				o := wop{key: k}
				if r.Intn(4) == 0 {
					o.del = true
					o.call = clock.Tick()
					err := db.Delete([]byte(k))
					o.ret = clock.Tick()
					if err != nil {
						opErr.Store(err)
						return
					}
				} else {
					o.val = fmt.Sprintf("v-%d-%d-%s", w, i, string(core.MakeVal(i, r.Intn(120))))
					o.call = clock.Tick()
					err := db.Put([]byte(k), []byte(o.val))
					o.ret = clock.Tick()
					if err != nil {
						opErr.Store(err)
						return
					}
				}
				logs[w] = append(logs[w], o)
				if i%20 == 0 {
					time.Sleep(time.Duration(r.Intn(300)) * time.Microsecond)
				}
			}
		}(w)
	}
	type bk struct {
		dir      string
		t0, t1   int64
		err      error
		segs     int
	}
	var backups []bk
	nb := 6 + rng.Intn(7)
	done := make(chan struct{})
	go func() {
		defer close(done)
		for b := 0; b < nb; b++ {
			bdir := env.Sub(fmt.Sprintf("backup-%d", b))
			x := bk{dir: bdir, segs: len(db.VerifSegments())}
			x.t0 = clock.Tick()
			x.err = db.Backup(bdir)
			x.t1 = clock.Tick()
			backups = append(backups, x)
			time.Sleep(time.Duration(500+rng.Intn(3000)) * time.Microsecond)
		}
	}()
	wg.Wait()
	<-done
	if e := opErr.Load(); e != nil {
		c.Violation("op-error", fmt.Sprintf("a write failed while backups were running: %v", e), map[string]interface{}{"hash_seed": seed, "fs": fsk})
		db.Close()
		return
	}
	final := core.State{}
	for _, l := range logs {
		for _, o := range l {
			if o.del {
				delete(final, o.key)
			} else {
				final[o.key] = o.val
			}
		}
	}
	for bi, b := range backups {
		c.Eval(1)
		c.Stat("backups_judged", 1)
		c.Stat("backups_concurrent", 1)
		fail := func(sig, detail string) {
			c.Violation(sig, fmt.Sprintf("backup %d of %d (fs %s, %d writers, tickets [%d,%d]): %s", bi, len(backups), fsk, nw, b.t0, b.t1, detail),
				map[string]interface{}{"hash_seed": seed, "fs": fsk, "config": cfg})
		}
		if b.err != nil {
			fail("backup-error", "Backup returned an error: "+b.err.Error())
			break
		}
		st, err := openBackup(env, b.dir, cfg)
		if err != nil {
			fail("backup-unusable", err.Error())
			break
		}
		// per-writer projections
		type cand struct{ c, r int64 }
		var perW [][]cand
		ok := true
		during := 0
		for w := 0; w < nw; w++ {
			proj := core.State{}
			prefix := fmt.Sprintf("w%d-", w)
			for k, v := range st {
				if len(k) > len(prefix) && k[:len(prefix)] == prefix {
					proj[k] = v
				}
			}
			lo, hi := 0, 0
			for _, o := range logs[w] {
				if o.ret < b.t0 {
					lo++
				}
				if o.call < b.t1 {
					hi++
				}
			}
			during += hi - lo
			ms := matchPrefixes(logs[w], lo, hi, proj)
			if len(ms) == 0 {
				atLo := core.State{}
				for _, o := range logs[w][:lo] {
					if o.del {
						delete(atLo, o.key)
					} else {
						atLo[o.key] = o.val
					}
				}
				fail("backup-not-a-point-in-time", fmt.Sprintf("the keys of writer %d in the backup equal its state after no prefix n of its calls with %d (acknowledged before Backup was called) <= n <= %d (issued before Backup returned); difference to the state after %d calls: %s", w, lo, hi, lo, proj.Diff(atLo, 4)))
				ok = false
				break
			}
			var cs []cand
			for _, n := range ms {
				var cc, rr int64 = 0, 1 << 62
				if n > 0 {
					cc = logs[w][n-1].call
				}
				if n < len(logs[w]) {
					rr = logs[w][n].ret
				}
				cs = append(cs, cand{cc, rr})
			}
			perW = append(perW, cs)
		}
		if !ok {
			break
		}
		c.Stat("writes_during_backup", int64(during))
		// common instant: some t inside one interval of every writer
		var ts []int64
		for _, cs := range perW {
			for _, x := range cs {
				ts = append(ts, x.c)
			}
		}
		sort.Slice(ts, func(i, j int) bool { return ts[i] < ts[j] })
		common := false
		for _, t := range ts {
			all := true
			for _, cs := range perW {
				in := false
				for _, x := range cs {
					if x.c <= t && t <= x.r {
						in = true
						break
					}
				}
				if !in {
					all = false
					break
				}
			}
			if all {
				common = true
				break
			}
		}
		if !common {
			fail("backup-not-a-point-in-time", "every writer's keys match some prefix of its calls, but no single instant is consistent with the prefixes of all writers (the backup mixes states of different moments)")
			break
		}
		segsNow := 0
		if files := env.List(b.dir); files != nil {
			for n := range files {
				if len(n) > 4 && n[len(n)-4:] == ".psg" {
					segsNow++
				}
			}
		}
		if during > 0 && segsNow > 1 {
			c.Stat("rollover_during_backup", 1)
		}
		c.Distinct("g", fsk, nw, segsNow, during > 0, during > 20)
		env.RemoveAllIn(b.dir)
		if fsk != core.FSMem {
			os.RemoveAll(b.dir)
		}
	}
	if c.Violations() == 0 {
		live, err := core.Dump(db, nil)
		if err != nil || !live.Equal(final) {
			c.Violation("source-affected", fmt.Sprintf("the source database differs from its reference after the backups: %v %s", err, live.Diff(final, 3)), map[string]interface{}{"hash_seed": seed, "fs": fsk})
		}
	}
	db.Close()
	if c.Case < 4 {
		c.Sample(map[string]interface{}{"kind": "goroutines", "fs": fsk, "writers": nw, "calls_per_writer": perWriter, "backups": len(backups), "config": cfg})
	}
}
