package checks

import (
	"os"
	"path/filepath"
)

func mkdirFor(path string) error { return os.MkdirAll(filepath.Dir(path), 0755) }
