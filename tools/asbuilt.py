#!/usr/bin/env python3
"""One-off helper: inserts/refreshes the 'As built' bullet of every property section of DESIGN.md."""
import re
p = '/verif/DESIGN.md'
s = open(p).read()
asbuilt = {
"C01": "`harness/internal/checks/c01.go`. quick 320 programs (~3.5*10^5 compared calls, ~8 s), thorough 20 000 (2.3*10^7 calls, ~6 min). File systems: Mem (bulk), CrashFS every 5th, OS every 7th, OSMMap every 11th case. The structural walk is `core.CheckIndex` (I1, I3, I4, I5 are violations; I2 is only a note). A run that never produced an overflow chain, a split, a non-empty free list or an effective compaction exits 2.",
"C02": "`c02.go`. quick 160 multi-session programs (~3 100 restarts), thorough 6 000. Added after the seeded changes: half of the programs run with the library's own random seeds (keys are engineered for the seed read back after the first Open) and half empty the database, restart and refill (a new seed is drawn - `seeded/C02-m1`); on CrashFS every file-system call of a final `Close` is failed once (`core.FaultFS`): if Close returns nil anyway the directory must reopen without recovery with the closed contents (`seeded/C02-m2`). The idle Open+Close comparison accepts a *new empty* segment file (Open needs a writable current segment when all existing ones are sealed or none is left) - see section 6.",
"C03": "`c03.go`, `core/hist.go`, `crashfs`. quick 32 histories -> ~31 000 de-duplicated images (16 s); thorough 1 600 histories -> 1.6*10^6 images (5 min). Every boundary and every tear of every history (exhaustive per history). The secondary SnapshotFS/OSMMap path of the first draft was dropped: C08, C16, C17 and C18 run recoveries of the same image shapes through `fs.OS`/`fs.OSMMap`.",
"C04": "`c04.go`. quick 32 trees (~62 000 recoveries, ~430 epochs of depth 2-4, ~20 000 crash points inside recoveries), thorough 1 500. A second recovery after an interrupted one is only required to be admissible (`interrupted_recovery_changed_outcome` is reported, not judged).",
"C05": "`c05.go`. quick 48 histories (~620 effective compactions, ~13 000 record windows, ~4 000 writes placed in windows, ~23 000 images inside compactions), thorough 3 000. Yield points used: `compact:picked` (after the pick), `compact:segment` (after sealing a source), `compact:record`, `compact:copied` (before the source is removed). Window writes right after the pick prefer deleting live keys (the D12 shape). Key classes of window writes are measured (`wkey_in-source`, `wkey_already-promoted`, `wkey_elsewhere`, `wkey_absent`).",
"C06": "`c06.go`. quick 32 histories (~2*10^5 images, ~45 s), thorough 800. Compactions have writers in their windows here too (that is how D12 was found).",
"C07": "`c07.go`. quick 64 runs (~10^5 recorded operations, ~300 compaction record windows overlapped per run), thorough 4 000. The handshake hands the window to a dedicated writer in half of the runs. Race reports seen in this workload are counted in the evidence but judged by C10.",
"C08": "`c08.go`, `tails.go`, `decoder`. quick 32 bases x ~590 tails = ~19 000 recoveries (~30 s), thorough 1 600 bases. Rotation over CrashFS/Mem/OS/OSMMap per tail.",
"C09": "`c09.go`. quick 48 histories (~220 closes), thorough 2 000. After the repair every file is synced at Close, so the image family collapses to one or two images per boundary; on the unrepaired tree the first close already fails (`seeded/REV-47e7cbc`).",
"C10": "`c10.go`, `core/racelog.go`. quick 96 runs (3 FS x 32), thorough 6 000. A shard in which goroutines are stuck for good stops after the case (`AbortShard`). Contents oracle: see section 6 (corrected to the literal statement).",
"C11": "`c11.go`. quick 96 cases = 32 quiescent programs (~900 exact scans) + 32 interleaved (128 scans) + 32 goroutine runs under the race detector (172 scans), thorough 6 000. The plain and the race-detector binaries run side by side (`RaceCase`).",
"C12": "`c12.go`. quick 64 cases (~130 deterministic + ~300 concurrent backups), thorough 3 000.",
"C13": "`c13.go`. quick: both 2-participant scenarios exhaustively on OS and OSMMap, all four scenarios at call granularity on Mem/CrashFS, and 150-schedule subtrees of `A:Close || B:Open || C:Open` per assigned prefix (~7 000 schedules); thorough: both 3-participant scenarios exhaustively, sharded by 5-step prefixes over 64 cases. Session chains: 32 chains x 4 file systems; plus (added after `seeded/C13-m1`) an unclean directory whose next Open fails at each one of its file-system calls (FaultFS on CrashFS) must still be recovered by the next successful Open.",
"C14": "`c14.go`, `core/poisonfs.go`. quick 160 programs (~4.3*10^5 returned slices), thorough 6 000. Spare capacity of slices returned by Next is scribbled too (`seeded/C14-m3`).",
"C15": "`c15.go`. quick 64 runs (~3 300 effective compactions, ~2 500 restarts), thorough 3 000. Added after `seeded/C15-m3`: sessions that end without compacting, 'lazy' runs in which every session compacts only first thing after the restart, and a sharp reclaim check (dead share measured by the harness from files + index must stay below 2*threshold+5 points for segments of at least the minimum size right after a Compact).",
"C16": "`c16.go`. quick 48 cases x 8 combinations, thorough 640 cases incl. exactly 512 MiB and 512 MiB+1 (disk scratch). Every combination also writes an empty key with an empty value (`seeded/C16-m1`) and, after the restart, a small record before the record under test (D8's shape).",
"C17": "`c17.go`. quick 96 programs x 4 file systems (~1.3*10^5 trace lines), thorough 4 000. Returned values are scribbled over by the caller (`seeded/C17-m1`), every 8th program writes 2-4 MiB values and reads them back at once (`seeded/C17-m2`). The >1 GiB segment and the 10^5-key index of the first draft were not built.",
"C18": "`c18.go`, `golden.go`, `golden/`. 24 golden directories (8 shapes x {clean, copied while open, closed+lock+torn tail}) x 4 file systems + quick 72 / thorough 3 000 forward histories. Generated by `pvh gengolden` linked against a worktree of `c609b51` (pinned tree + hook commits, no `fix:`), worktree removed afterwards.",
"C19": "`c19.go`. quick 16 bases x 24 headers x 2 file systems = 768 measured recoveries, thorough 400 bases x 80. At most 8 child processes (an unrepaired tree allocates gigabytes per violating case).",
}
s = re.sub(r'^\* \*\*As built\*\*: .*\n\n', '', s, flags=re.M)
for cid, text in asbuilt.items():
    m = re.search(r'^### ' + cid + r' .*$', s, re.M)
    assert m, cid
    n = re.search(r'^(### |---------)', s[m.end():], re.M)
    pos = m.end() + n.start()
    s = s[:pos] + "* **As built**: " + text + "\n\n" + s[pos:]
open(p, 'w').write(s)
print(s.count('As built'))
