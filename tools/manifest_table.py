add("C01", "exploration",
    "runtime monitor: reference-map differential on generated programs with hash-collision-engineered keys + structural index invariant walk at quiescent points",
    "Every call of thousands of generated API programs (keys engineered to collide in the full hash or in its low bits for a pinned seed; thresholds from a grid; Mem/CrashFS/OS/OSMMap) is compared with a reference map, Count after every call, and the on-disk index is walked every 64 calls (slot placement, duplicates, slot->record agreement via an independent record decoder, free list). Held on the executions listed in the evidence; not a proof over all histories.",
    "Trusts the reference map, the independent decoder/hash re-implementation (cross-checked against pogreb's on every slot) and that pinning the hash seed through the verif hook does not change behaviour otherwise. Single goroutine.",
    "DESIGN.md 4/C01")
add("C02", "exploration",
    "runtime monitor: reference-map differential across clean Close/Open cycles, recovery-event hook, index geometry comparison, OS<->OSMMap alternation, random/boundary hash seeds, single-call fault injection into Close",
    "Generated multi-session programs (C01's generator plus restarts at PRNG positions, after compactions, on empty databases); after every clean restart the recovery hook must stay silent, the lock file must be gone, the full read-back and the structural index walk must equal the reference and the index geometry must equal the one before Close; idle Open+Close cycles must leave the segment files byte-identical; real directories alternate between fs.OS and fs.OSMMap.",
    "Trusts the reference map and the verif 'recover' event hook. Held on the sessions listed in the evidence.",
    "DESIGN.md 4/C02")
add("C03", "fault_enumeration",
    "fault enumeration at runtime: every FS-call boundary and every 512-aligned tear of recorded executions is materialised as a crash image and recovered by the real Open; oracle = reference state before/after the call in flight",
    "Each generated history runs on a call-logging in-memory file system; every crash point of the stated process-crash model inside the history (all boundaries between FS calls, all sector-aligned tears of every data write) is turned into an image that the real recovery code opens; the complete read-back must equal the reference state before or after the API call in flight. Exhaustive per history, sampled over histories. Every other history also has a few Put/Delete calls hit by one failing record append (whole call, injected): the failed call's own key is undetermined until an acknowledged call settles it, everything acknowledged later is judged at every later crash point.",
    "Fault model exactly as stated in the property (completed calls applied, in-flight data write torn at 512-aligned offsets, atomic directory operations). Trusts CrashFS (cross-validated against fs.OS in C17) and the reference map.",
    "DESIGN.md 4/C03")
add("C06", "fault_enumeration",
    "fault enumeration at runtime: power-loss images (per-inode surviving prefixes of unsynced operations) at every FS-call boundary of recorded executions, recovered by the real Open; per-key oracle 'synced value or a later write'; fsync failures injected into Sync",
    "Histories in both sync modes with rollover, compaction (with writers slipped into its lock-free windows through the verif yield hook), clean restarts and a second epoch after a recovery; at every FS-call boundary a family of admissible power-loss images (minimal, maximal, single-inode loses/keeps, PRNG prefixes with tears) is recovered by the real code and every key must hold its last-synced value or a later write.",
    "Power-loss model exactly as stated in the property. fs.File.Sync is taken to be fsync. Image family per boundary is a fixed adversarial subset plus PRNG samples, not all prefix combinations.",
    "DESIGN.md 4/C06")
add("C04", "fault_enumeration",
    "fault enumeration at runtime over chains of crash epochs: crash images of recorded executions are recovered, the recovery itself and the sessions after it are recorded and crashed again (depth 4), oracle = reference state carried across epochs",
    "Trees of (session, crash point) epochs on the call-logging file system: selected crash images (all torn-tail shapes plus samples) are recovered twice (idempotence), every boundary and tear inside the recovering Open is crashed and recovered again, the session continues after the recovery with acknowledged writes, compaction with interleaved writers, clean restarts, and its crash images are judged against the reference carried over from the observed post-recovery state; repeated to depth 4.",
    "Process-crash model of C03 applied repeatedly. The state read back after a recovery is treated as acknowledged from then on. Breadth is PRNG-sampled; the inside-recovery enumeration is exhaustive per selected image.",
    "DESIGN.md 4/C04")
add("C05", "fault_enumeration",
    "runtime monitor + fault enumeration: writers placed deterministically inside compaction's lock-free windows via the verif yield hook, live reference-map read-backs after every call, crash-image enumeration of every FS call inside Compact, failing reads injected into compactions, segment-counter invariant after every Open",
    "Compaction-heavy histories in which the harness itself performs Put/Delete/nested Compact/read-backs at compaction's yield points (after the pick, after sealing, between any two records, before removal of the source); every read is compared with the acknowledged writes, and every crash point inside each Compact (including inside the writers slipped into it) plus every later call boundary is recovered and compared with the reference state before/after the innermost call in flight. Key classes hit by window writes (record still in the source, already promoted, elsewhere, absent) are measured.",
    "A callback at a yield point where compaction holds no lock stands for another goroutine scheduled there (real-goroutine interleavings are C07/C10). Process-crash model of C03.",
    "DESIGN.md 4/C05")
add("C09", "fault_enumeration",
    "fault enumeration at runtime: power-loss images from the return of Close through every FS call of the next Open, recovered by the real Open; oracle = exactly the closed contents; single-call fault injection into Close followed by power loss",
    "Histories with several clean Close/Open cycles (after growth, chains, rollover, compaction, recovery, on empty databases, idle sessions; both sync modes); for each Close the admissible power-loss images at the instant Close returned and at every file-system-call boundary of the following Open are opened by the real code and must read back exactly the closed contents.",
    "Power-loss model of the property. fs.File.Sync is taken to be fsync.",
    "DESIGN.md 4/C09")
add("C08", "fault_enumeration",
    "fault enumeration at runtime: enumerated damaged tails (all truncation lengths, all single-bit flips, zero runs, garbage, damaged+valid) recovered by the real Open; oracle = independent decoder of the documented format",
    "Unclean images whose damaged segment ends at chosen offsets relative to 512-byte and 4096-byte boundaries get every tail of the enumerated families appended to the newest or a middle segment; the real recovering Open runs on CrashFS/Mem/OS/OSMMap and its result (contents, truncated segment lengths) must equal what an independent validating decoder computes; every bit flip in key/value/CRC must invalidate.",
    "The decoder written from docs/design.md defines validity. Tails are enumerated per family (exhaustive for truncation lengths and single-bit flips of the sample records), not over all byte strings.",
    "DESIGN.md 4/C08")
add("C14", "exploration",
    "runtime monitor: poison-on-return file system wrapper, /proc/self/maps address check on the mmap file system, retained-slice re-reads after later mutations/Close with fault capture, input scribbling",
    "Every slice returned by Get/GetAppend/Next is compared with the reference after all buffers the file system handed out during the call were overwritten, checked not to lie inside a mapping of a database file, retained and re-read after overwrites, deletes, compaction removing its segment, growth and Close; caller inputs and spare capacity are scribbled right after each call and must never show up in later reads, after restart or recovery.",
    "Poisoning memory obtained from File.Slice after the API call returned is sound because that memory may legitimately vanish on any later call. Only executed paths are covered.",
    "DESIGN.md 4/C14")
add("C16", "exploration",
    "runtime monitor: boundary-value enumeration of key/value lengths x segment capacities with byte-exact read-back (live, recovery, restart), directory fingerprints around rejected Puts, hash-engineered over-long probe keys",
    "Key and value lengths around 0, sector/buffer boundaries, 64 KiB and 1 MiB (thorough: 512 MiB) are combined with segment capacities that make the record exactly fit, exceed a whole segment or overflow the remaining space; each combination is read back byte-exactly live, after recovery and after restart (with a write after the restart followed by another recovery); rejected over-limit Puts must leave every file byte unchanged; over-long keys engineered to share hash and truncated 16-bit length with a stored key must behave as absent.",
    "Lengths are sampled at boundaries, not all 2^29. Hash seed pinned for the engineered probes.",
    "DESIGN.md 4/C16")
add("C19", "exploration",
    "runtime resource monitor: differential TotalAlloc / bytes-read / largest-read-request meters around the recovering Open for images with and without a tail whose header claims huge lengths",
    "For headers claiming key sizes up to 65535 and value sizes up to 2^31-1 (both types, 0-64 trailing bytes) appended to small and medium unclean images, the recovering Open is measured against the same image without the tail on the same file system and pinned seed: extra allocation must stay within 2*tail+64 KiB, extra segment bytes read within 2*tail+64 KiB, no single read request larger than the largest file+64 KiB, contents equal to the valid prefix. No timing is judged.",
    "TotalAlloc is trusted as allocation meter; claims below the 64 KiB slack are not distinguishable from noise (bounded constant).",
    "DESIGN.md 4/C19")
add("C15", "exploration",
    "runtime resource/structure monitor: directory listing diff around every Compact, allowed-file whitelist, /proc/self/fd and /proc/self/maps meters, usability calls after compaction, coarse growth bound over steady-state cycles",
    "Steady overwrite/delete cycles over a fixed live set with a Compact per cycle, restarts every third cycle and forced delete-everything cycles, on all four file systems and a threshold grid; after every Compact the segments that disappeared must have left neither .psg nor .psg.pmt behind, every remaining file must be whitelisted, Sync/Put/Delete/Backup/Close must succeed (also with zero segments), descriptor and mapping counts must stay within live segments plus a constant, and directory size must not keep growing.",
    "The growth bound is coarse by design; /proc meters are trusted. Held on the cycles listed in the evidence.",
    "DESIGN.md 4/C15")
add("C17", "exploration",
    "runtime differential monitor: the same pinned-seed program executed on fs.Mem, fs.OS, fs.OSMMap (and the harness CrashFS); line-by-line comparison of call-result traces and segment-file fingerprints at checkpoints",
    "Generated programs (collisions, splits, rollover, compaction, clean restarts, FileSize, simulated unclean shutdowns with torn tails written through the FileSystem interface and recovery with truncation) run on every FileSystem implementation with the same hash seed; every observable result, every Items order and the names/lengths/fingerprints of all segment files at every checkpoint must be identical.",
    "Error texts are not compared (they contain paths). linux/amd64 only. A divergence of CrashFS alone is treated as a harness problem (inconclusive), not as a violation.",
    "DESIGN.md 4/C17")
add("C18", "exploration",
    "runtime monitor: golden corpus written by the pinned build opened by the current code on four file systems (backward) + independent decoder validating every segment byte and the log replay at checkpoints of generated histories (forward)",
    "Backward: 24 committed directories written by the pinned version (clean, copied while open, torn) must open on OS/OSMMap/Mem/CrashFS with the recorded contents, with/without recovery as appropriate, with a consistent index, and survive a further session; each is also opened with its segment sequence numbers raised past 16, 32 and 63 bits. Forward: at every checkpoint of generated histories the independent decoder must accept every segment file up to its last byte, names must be %05d-%d.psg with sequence ids ordering creation, index files must carry the documented header, and the decoder's replay in sequence order must equal the reference.",
    "Corpus generated once from commit 0e387fd + hook commits (no fix commits) by tools in this tree (pvh gengolden). The decoder defines the documented format.",
    "DESIGN.md 4/C18")
add("C11", "exploration",
    "runtime monitor over recorded scan events: exact multiset comparison on quiescent scans; for scans interleaved with writes (deterministically by the harness, and by real goroutines under the race detector) a ticket-ordered truthfulness oracle and a stable-key completeness oracle",
    "Quiescent scans on every index shape reached by generated programs must equal the reference exactly and ErrIterationDone must be sticky; scans interleaved with inserts that split buckets (incl. level changes), chain deletes, overwrites and compactions - placed between Next calls by the harness or performed by concurrent goroutines - must only return pairs whose Put had been called before that Next returned and must return every stable key (engineered into every bucket and into overflow chains).",
    "Inserts per scan are capped (termination under unbounded growth is not claimed). Real-goroutine cases cover only the interleavings the scheduler produced.",
    "DESIGN.md 4/C11")
add("C13", "exploration",
    "stateless schedule exploration (DFS) of the real Open/Close lock code against the real kernel flock, stepping participants at verif yield hooks between system calls; holder-count monitor; session-chain monitor with the recovery-event hook; failed-Open fault injection; concurrent Opens behind a spin barrier",
    "Every interleaving, at system-call granularity, of A:Close[,Open] / B:Open[,Close] / C:Open is executed against the real file system and flock (2 participants exhaustively in the quick tier, 3 participants sampled by subtree in quick and exhaustively in thorough); at no step may two handles be open, failed Opens must return 'locked', acknowledged writes must survive. All 32 clean/unclean 5-session chains per file system check that recovery runs exactly after unclean ends and that a rejected competing Open leaves the directory byte-identical.",
    "flock semantics between open file descriptions of one process equal those between processes. More than three concurrent openers and non-unix lock implementations are not explored.",
    "DESIGN.md 4/C13")
add("C07", "exploration",
    "offline linearizability checking (porcupine v1.3.0, per-key register-with-delete model) of call/return histories recorded at the client boundary under the race-detector build, with writers handed into compaction windows through the verif yield hook; history-derived sound bounds for Count",
    "Many short concurrent runs (4-12 workers on 2-6 hot keys incl. full-hash collisions and one overflow chain, churn keys forcing splits, Compact loop, Sync, Backup, Count, scanners, background worker) are recorded with unique written values and tickets from one atomic counter and checked by porcupine per key; Unknown (timeout) is inconclusive. Count results are checked against bounds that cannot flag a linearizable execution.",
    "Only the interleavings produced by the Go scheduler, injected sleeps and the window handshake are observed. Items scans are judged by C11's rule.",
    "DESIGN.md 4/C07")
add("C10", "exploration",
    "Go race detector (+checkptr, SetPanicOnFault) over stress runs of every public method with Close fired mid-run; race-log parser deduplicating by outermost entry-point pair; child-process crash capture; deadlock picture from goroutine dumps; goroutine-leak poll; post-Close contents oracle on clean reopen and forced recovery",
    "Short runs on Mem/OS/OSMMap in which 6-16 goroutines call all public methods (shared and private iterators included) while Close is fired at a PRNG-chosen call count and callers continue afterwards; any race report with a library frame, panic, fatal error or fault, proven deadlock, leftover library goroutine, nil-returning write after Close, or post-Close contents other than the effects of nil-returning calls (calls that failed may or may not have taken effect, as the statement allows) is a violation.",
    "The race detector sees only executed paths. A watchdog firing without a stable all-parked dump is inconclusive, never a violation.",
    "DESIGN.md 4/C10")
add("C12", "exploration",
    "runtime monitor over recorded write/backup tickets: per-writer prefix matching of the opened backup within the admissible window plus a common-instant check; writes placed deterministically inside Backup through the verif yield hooks; concurrent runs under the race detector",
    "Backups taken while the harness writes inside Backup's capture->copy window (forcing rollovers, overwriting and deleting already-copied keys, attempting Compact) and while 1-4 concurrent writers and 1 ms background compaction run; every backup must be returned without error, open by log replay, equal - per writer - a prefix of that writer's calls between 'acknowledged before the call' and 'issued before the return', admit one common instant across writers, and leave the source equal to its reference.",
    "Writers are sequential with disjoint keys. Ambiguous prefixes are resolved in the implementation's favour.",
    "DESIGN.md 4/C12")
