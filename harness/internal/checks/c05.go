package checks

import (
	"fmt"
	"path/filepath"

	"pvh/internal/core"
	"pvh/internal/crashfs"
	"pvh/internal/decoder"
)

func init() {
	core.Register(&core.Check{
		ID:    "C05",
		Level: "fault_enumeration",
		Rule: "one case = one compaction-heavy history on CrashFS (thresholds make a segment eligible after a few overwrites/deletes; scenario phases: delete " +
			"everything, overwrite everything, delete a third; Compact every ~8 calls). Through the verif yield hook the harness itself runs Put/Delete/" +
			"nested Compact/full read-backs inside compaction's lock-free windows (after the pick, after sealing a source, between any two records, before " +
			"the source is removed) - deterministic placement of what another goroutine could do there. One compaction in five runs without writers but with one failing read (fault injection): it may return an error, " +
			"the contents must not change. A full read-back against the reference follows " +
			"every call, including every call inside a window. Then every FS-call boundary and every sector tear inside each Compact (its own calls and the " +
			"calls of the writers slipped into it) is recovered as a crash image and must equal the reference state before/after the innermost call in " +
			"flight; outside compactions every call boundary is recovered too (resurrection check after later writes). evaluations = images recovered + " +
			"live read-backs; distinct_nontrivial = distinct mid-operation image fingerprints inside compactions + distinct (window point, key class) pairs.",
		Assumptions: []string{
			"process-crash model of C03",
			"a callback run at a yield point where compaction holds no lock is equivalent to another goroutine being scheduled there",
			"hash seed pinned",
		},
		Cases: func(tier string) int {
			if tier == "thorough" {
				return 3000
			}
			return 48
		},
		Run: runC05,
		Require: []string{"compactions_effective", "window_puts", "window_deletes", "window_nested_compact", "window_readbacks",
			"wkey_in-source", "wkey_already-promoted", "wkey_elsewhere", "wkey_absent", "yield_compact:picked", "yield_compact:record", "yield_compact:copied",
			"images_inside_compaction", "compacted_all_segments", "compacted_current_segment", "segment_id_reuse", "delete_markers_dropped", "compactions_with_injected_fault", "compactions_failed_by_fault"},
	})
}

// slotSegments maps every live key to the name of the segment its index slot points at.
func slotSegments(hb *core.HB) map[string]string {
	out := map[string]string{}
	vi, err := hb.DB.VerifIndexDump()
	if err != nil {
		return out
	}
	names := map[uint16]string{}
	data := map[uint16][]byte{}
	for _, s := range hb.DB.VerifSegments() {
		names[s.ID] = s.Name
		if d, err := hb.Env.ReadFile(filepath.Join(hb.Env.Dir, s.Name)); err == nil {
			data[s.ID] = d
		}
	}
	for _, chain := range vi.Chains {
		for _, b := range chain {
			for _, sl := range b.Slots {
				if rec, ok := decoder.DecodeAt(data[sl.SegmentID], int64(sl.Offset)); ok {
					out[string(rec.Key)] = names[sl.SegmentID]
				}
			}
		}
	}
	return out
}

func runC05(c *core.Ctx) {
	rng := c.Rng
	seed := rng.Uint32()
	core.PinSeed(seed)
	ks := crashKeys(rng, seed)
	cfg := smallCrashConfig(rng, c.Case%5 == 4)
	valIdx := 0
	// classification of window writes, resolved when the compaction ends
	type wrec struct {
		key      string
		startSeg string // segment of the key's slot when the compaction started ("" = absent)
		curSeg   string // segment of the key's slot right before the window write
		written  bool   // the harness already wrote this key inside this compaction
	}
	var pending []wrec
	var startSlots map[string]string
	writtenInCompaction := map[string]bool{}
	p := histParams{NOps: 60 + rng.Intn(140), Reopen: c.Case%3 == 0, Writers: true, LiveCheck: true, SyncPct: 4, CompactPct: 14,
		Scenarios: true, WindowBudget: 10}
	p.Classify = func(hb *core.HB, key []byte) {
		cur := slotSegments(hb)
		pending = append(pending, wrec{key: string(key), startSeg: startSlots[string(key)], curSeg: cur[string(key)], written: writtenInCompaction[string(key)]})
		writtenInCompaction[string(key)] = true
	}
	core.HBFaults = true
	defer func() { core.HBFaults = false }()
	hb, err := core.NewHB(c, nil, cfg, ks.Keys, nil)
	if err != nil {
		c.Violation("open-error", err.Error(), nil)
		return
	}
	// wrap Compact bookkeeping through the InWindow callback: "compact:picked" is the first yield of a compaction
	inner := windowWriter(hb, rng, ks, &valIdx, p.WindowBudget, p.Classify)
	var segsBefore []string
	everSeen := map[string]bool{}
	hb.InWindow = func(point string) {
		if point == "compact:picked" {
			startSlots = slotSegments(hb)
			writtenInCompaction = map[string]bool{}
			pending = nil
		}
		inner(point)
	}
	hb.LiveCheck = true
	compactWithStats := func() {
		segsBefore = nil
		cur := ""
		delRecs := uint32(0)
		for _, s := range hb.DB.VerifSegments() {
			segsBefore = append(segsBefore, s.Name)
			everSeen[s.Name] = true
			if s.Current {
				cur = s.Name
			}
			delRecs += s.DeleteRecords
		}
		pending = nil
		startSlots = slotSegments(hb)
		// one compaction in five runs undisturbed by writers but with ONE failing read (of a segment record or an index
		// bucket): whether it then returns an error or not, the contents must stay what they are. (Failing writes or
		// removes are not injected: the properties make no claim about a database whose files and memory diverge after
		// a failed write.)
		faulty := rng.Intn(5) == 0
		saved := hb.InWindow
		if faulty {
			hb.InWindow = nil
			hb.AllowCompactError = true
			hb.LiveCheck = false
			hb.Faults.Reads = true
			hb.Faults.Only = "read"
			hb.Faults.Arm(rng.Intn(30))
		}
		cr := hb.Compact()
		if faulty {
			if hb.Faults.Fired != "" {
				c.Stat("compactions_with_injected_fault", 1)
			}
			hb.Faults.Disarm()
			hb.Faults.Reads = false
			hb.Faults.Only = ""
			hb.AllowCompactError = false
			hb.InWindow = saved
			hb.LiveCheck = true
			if st, err := core.Dump(hb.DB, ks.Keys); err != nil {
				hb.Failed = "read-back after a compaction with a failing read: " + err.Error()
			} else if !st.Equal(hb.Ref) {
				hb.Failed = "read-back after a compaction with a failing read differs: " + st.Diff(hb.Ref, 4)
			}
		}
		after := map[string]bool{}
		ids := map[uint16]bool{}
		for _, s := range hb.DB.VerifSegments() {
			after[s.Name] = true
			if !everSeen[s.Name] {
				// a new segment: does it reuse the physical id of a removed one?
				for n := range everSeen {
					if sn, ok := decoder.ParseSegmentName(n); ok && sn.ID == s.ID && !after[n] {
						c.Stat("segment_id_reuse", 1)
						break
					}
				}
			}
			ids[s.ID] = true
			everSeen[s.Name] = true
		}
		removed := map[string]bool{}
		for _, n := range segsBefore {
			if !after[n] {
				removed[n] = true
			}
		}
		if cr.CompactedSegments > 0 {
			if len(after) == 0 {
				c.Stat("compacted_all_segments", 1)
			}
			if removed[cur] {
				c.Stat("compacted_current_segment", 1)
			}
			if cr.CompactedSegments > 1 {
				c.Stat("multi_segment_compactions", 1)
			}
			delAfter := uint32(0)
			for _, s := range hb.DB.VerifSegments() {
				delAfter += s.DeleteRecords
			}
			if delAfter < delRecs {
				c.Stat("delete_markers_dropped", 1)
			}
		}
		for _, w := range pending {
			class := "elsewhere"
			switch {
			case w.curSeg == "":
				class = "absent"
			case w.written:
				class = "rewritten-in-window"
			case removed[w.curSeg]:
				class = "in-source"
			case w.startSeg != "" && removed[w.startSeg] && w.curSeg != w.startSeg:
				class = "already-promoted"
			}
			c.Stat("wkey_"+class, 1)
			c.Distinct("wkey", class, len(pending))
		}
		pending = nil
	}
	// drive the history (like genHistory, but with the instrumented Compact)
	bigVal := int(cfg.MaxSeg) + 100 + rng.Intn(300)
	for i := 0; i < p.NOps && hb.Failed == ""; i++ {
		key := ks.Keys[rng.Intn(len(ks.Keys))]
		r := rng.Intn(100)
		valIdx++
		if rng.Intn(30) == 0 {
			switch rng.Intn(3) {
			case 0:
				for _, k := range ks.Keys {
					if _, ok := hb.Ref[string(k)]; ok && hb.Failed == "" {
						hb.Delete(k)
					}
				}
				c.Stat("scenario_delete_all", 1)
			case 1:
				for _, k := range ks.Keys {
					if _, ok := hb.Ref[string(k)]; ok && hb.Failed == "" {
						valIdx++
						hb.Put(k, core.MakeVal(valIdx, 10+rng.Intn(90)))
					}
				}
				c.Stat("scenario_overwrite_all", 1)
			default:
				for _, k := range ks.Keys {
					if _, ok := hb.Ref[string(k)]; ok && rng.Intn(3) == 0 && hb.Failed == "" {
						hb.Delete(k)
					}
				}
				c.Stat("scenario_delete_third", 1)
			}
			if hb.Failed == "" {
				compactWithStats()
			}
			continue
		}
		switch {
		case r < 50:
			vl := crashValueSizes[rng.Intn(len(crashValueSizes))]
			if rng.Intn(80) == 0 {
				vl = bigVal
			}
			hb.Put(key, core.MakeVal(valIdx, vl))
		case r < 72:
			hb.Delete(key)
		case r < 72+p.CompactPct:
			compactWithStats()
		case r < 72+p.CompactPct+p.SyncPct:
			hb.Sync()
		default:
			if p.Reopen && rng.Intn(2) == 0 {
				hb.Close()
				if hb.Failed == "" {
					hb.Open()
				}
			} else {
				hb.Put(key, core.MakeVal(valIdx, 10))
			}
		}
	}
	if hb.Failed != "" {
		c.Violation("live-mismatch", "a read during/after compaction disagrees with the acknowledged writes: "+hb.Failed,
			map[string]interface{}{"hash_seed": seed, "config": cfg, "keys": ks.HexKeys(100), "history": histData(hb.H, len(hb.H.Iv))})
		return
	}
	h := hb.Finish()
	c.Stat("compactions_failed_by_fault", int64(hb.CompactErrors))
	c.Eval(int64(len(h.Iv))) // live read-backs
	c.Stat("histories", 1)
	// which intervals lie inside a compaction (its own parts and the nested calls)
	inside := make([]bool, len(h.Iv))
	for i, iv := range h.Iv {
		if iv.Kind == "compact" {
			inside[i] = true
			// nested calls sit between two parts of the same compaction
			for j := i + 1; j < len(h.Iv) && h.Iv[j].Kind != "compact"; j++ {
				if k := j + 1; k < len(h.Iv) && (h.Iv[k].Kind == "compact" && h.Iv[k].Desc == iv.Desc) {
					for m := i + 1; m <= j; m++ {
						inside[m] = true
					}
				}
			}
		}
	}
	enumProcessSel(c, h, 0, func(ai, n int) int {
		if inside[ai] {
			c.Stat("images_inside_compaction", 1)
			return 2
		}
		if n == h.Iv[ai].Start {
			return 1
		}
		return 0
	}, func(ai int, label string, im crashfs.Image, opDesc string) bool {
		iv := h.Iv[ai]
		c.Eval(1)
		st, _, _, err := core.RecoverImage(im, cfg, ks.Keys)
		var sig, detail string
		if err != nil {
			sig = "recover-error/" + iv.Kind
			detail = fmt.Sprintf("crash %s during '%s': %v", label, iv.Desc, err)
		} else if !core.InAdm(st, iv.Adm) {
			sig = "recovered-state/" + iv.Kind
			detail = fmt.Sprintf("crash %s during '%s': recovered state is neither the state before nor after the innermost call in flight: vs before: %s", label, iv.Desc, st.Diff(iv.Adm[0], 3))
			if len(iv.Adm) > 1 {
				detail += " | vs after: " + st.Diff(iv.Adm[1], 3)
			}
		}
		if sig != "" {
			c.Violation(sig, detail, map[string]interface{}{"hash_seed": seed, "config": cfg, "keys": ks.HexKeys(100),
				"history": histData(h, ai), "crash_point": label, "image": core.DescribeImage(im)})
			return c.Violations() < 3
		}
		return true
	})
	if c.Case < 2 {
		c.Sample(map[string]interface{}{"hash_seed": seed, "config": cfg, "nkeys": len(ks.Keys), "intervals": len(h.Iv),
			"fs_calls": len(h.FS.Log), "calls": histData(h, 40)})
	}
}
