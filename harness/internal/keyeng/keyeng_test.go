package keyeng

import (
	"math/rand"
	"testing"
)

func TestSolve(t *testing.T) {
	r := rand.New(rand.NewSource(1))
	for i := 0; i < 20000; i++ {
		seed, target := r.Uint32(), r.Uint32()
		prefix := make([]byte, 4*r.Intn(5))
		r.Read(prefix)
		tail := make([]byte, r.Intn(4))
		r.Read(tail)
		k := Solve(seed, prefix, tail, target)
		if Sum(seed, k) != target {
			t.Fatalf("mismatch %d", i)
		}
	}
}
