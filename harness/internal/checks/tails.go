package checks

import (
	"encoding/binary"
	"fmt"
	"hash/crc32"
	"math/rand"
	"path/filepath"
	"sort"

	"pvh/internal/core"
	"pvh/internal/crashfs"
	"pvh/internal/decoder"
)

// tailBase is an unclean database image (lock file present, process-crash image of an open database)
// whose segments end at chosen offsets.
type tailBase struct {
	Image    crashfs.Image // full paths ("db/...")
	Cfg      core.Config
	Keys     [][]byte
	Segments []string // segment paths ordered by sequence id
	EndMod   int      // offset of the end of the target segment modulo 512
	Desc     string
}

// encodeRecord builds a record in the documented format (independent of pogreb's encoder).
func encodeRecord(key, value []byte, del bool) []byte {
	out := make([]byte, 6+len(key)+len(value)+4)
	binary.LittleEndian.PutUint16(out, uint16(len(key)))
	vw := uint32(len(value))
	if del {
		vw |= 1 << 31
	}
	binary.LittleEndian.PutUint32(out[2:], vw)
	copy(out[6:], key)
	copy(out[6+len(key):], value)
	binary.LittleEndian.PutUint32(out[len(out)-4:], crc32.ChecksumIEEE(out[:len(out)-4]))
	return out
}

// buildTailBase creates a database with nseg segments through the real API on CrashFS; the last record of
// every segment is sized so that the segment ends at an offset congruent to endMod modulo 512 (or, if
// around4096 is set, endMod bytes past a multiple of 4096).
func buildTailBase(rng *rand.Rand, seed uint32, nseg int, endMod int, around4096 bool) (*tailBase, error) {
	core.PinSeed(seed)
	cfg := core.Config{MaxSeg: 6000 + uint32(rng.Intn(3000)), MinSeg: 1 << 30, Frag: 0.5}
	env := core.NewEnv(core.FSCrash)
	db, err := env.Open(cfg)
	if err != nil {
		return nil, err
	}
	ks := core.GenKeys(rng, seed, core.KeySpec{SameHashGroups: 1, SameHashSize: 3, Plain: 30})
	val := 0
	curSize := func() (int64, int) {
		segs := db.VerifSegments()
		for _, s := range segs {
			if s.Current {
				return s.Size, len(segs)
			}
		}
		return 0, len(segs)
	}
	for {
		size, n := curSize()
		if n >= nseg && size > 1500 {
			// final alignment put into the current (newest) segment
			break
		}
		key := ks.Keys[rng.Intn(len(ks.Keys))]
		val++
		var err error
		if rng.Intn(5) == 0 {
			err = db.Delete(key)
		} else {
			err = db.Put(key, core.MakeVal(val, []int{0, 1, 7, 20, 60, 150, 400}[rng.Intn(7)]))
		}
		if err != nil {
			return nil, err
		}
	}
	// align the end of the newest segment
	size, _ := curSize()
	key := []byte("align-key")
	base := int64(6 + len(key) + 4)
	mod := int64(512)
	want := int64(endMod)
	if around4096 {
		mod = 4096
	}
	vlen := (want - (size+base)%mod + 2*mod) % mod
	if size+base+vlen > int64(cfg.MaxSeg) {
		// would roll over: shrink by whole periods is impossible, so grow the limit instead (fresh options are
		// not re-read by an open DB); just accept a smaller record if possible
		for vlen >= mod && size+base+vlen > int64(cfg.MaxSeg) {
			vlen -= mod
		}
	}
	val++
	if err := db.Put(key, core.MakeVal(val, int(vlen))); err != nil {
		return nil, err
	}
	im := env.Crash.Snapshot()
	tb := &tailBase{Image: im, Cfg: cfg, EndMod: endMod, Keys: append(append([][]byte{}, ks.Keys...), key)}
	var names []string
	for n := range im {
		names = append(names, filepath.Base(n))
	}
	for _, sn := range decoder.SortSegments(names) {
		tb.Segments = append(tb.Segments, filepath.Join("db", sn.Name))
	}
	last := tb.Segments[len(tb.Segments)-1]
	tb.Desc = fmt.Sprintf("%d segments, newest %s ends at %d (mod 512 = %d, mod 4096 = %d)", len(tb.Segments), filepath.Base(last), len(im[last]), len(im[last])%512, len(im[last])%4096)
	// the database object is abandoned (simulated crash)
	return tb, nil
}

// addEmptyNewest adds a header-only segment with the next id and the next sequence number to the base: the state a crash
// leaves right after a rollover created the next segment and before its first record. It returns the new segment's path.
func (tb *tailBase) addEmptyNewest() string {
	var names []string
	for n := range tb.Image {
		names = append(names, filepath.Base(n))
	}
	var maxID uint16
	var maxSeq uint64
	for _, sn := range decoder.SortSegments(names) {
		if sn.ID > maxID {
			maxID = sn.ID
		}
		if sn.Seq > maxSeq {
			maxSeq = sn.Seq
		}
	}
	last := tb.Segments[len(tb.Segments)-1]
	name := filepath.Join("db", fmt.Sprintf("%05d-%d.psg", maxID+1, maxSeq+1))
	tb.Image[name] = append([]byte(nil), tb.Image[last][:512]...)
	tb.Segments = append(tb.Segments, name)
	tb.Desc += "; plus a header-only newest segment " + filepath.Base(name)
	return name
}

// withTail returns a copy of the image with tail appended to segment path seg.
func (tb *tailBase) withTail(seg string, tail []byte) crashfs.Image {
	im := crashfs.Image{}
	for n, d := range tb.Image {
		if n == seg {
			nd := make([]byte, 0, len(d)+len(tail))
			nd = append(append(nd, d...), tail...)
			im[n] = nd
		} else {
			im[n] = d
		}
	}
	return im
}

// expected computes, with the independent decoder, the contents and segment lengths a recovery must produce.
func expectedFromImage(im crashfs.Image) (core.State, map[string]int64, error) {
	files := map[string][]byte{}
	for n, d := range im {
		files[filepath.Base(n)] = d
	}
	st, ends, err := decoder.Replay(files)
	if err != nil {
		return nil, nil, err
	}
	out := core.State{}
	for k, v := range st {
		out[k] = string(v)
	}
	return out, ends, nil
}

// installImage writes an image into a fresh environment of the given kind.
func installImage(kind core.FSKind, im crashfs.Image) (*core.Env, error) {
	if kind == core.FSCrash {
		return core.CrashEnvFromImage(im), nil
	}
	env := core.NewEnv(kind)
	names := im.Names()
	sort.Strings(names)
	probe := core.CrashEnvFromImage(crashfs.Image{})
	_ = probe
	for _, n := range names {
		dst := filepath.Join(env.Dir, filepath.Base(n))
		if kind == core.FSOS || kind == core.FSOSMMap {
			if err := mkdirFor(dst); err != nil {
				return nil, err
			}
		}
		if err := env.WriteFile(dst, im[n]); err != nil {
			return nil, err
		}
	}
	return env, nil
}
