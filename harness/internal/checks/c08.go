package checks

import (
	"fmt"
	"path/filepath"

	"pvh/internal/core"
	"pvh/internal/crashfs"
	"pvh/internal/decoder"
)

func init() {
	core.Register(&core.Check{
		ID:    "C08",
		Level: "fault_enumeration",
		Rule: "one case = one unclean database image (1-4 segments built through the real API; the damaged segment ends at an offset chosen modulo 512 / around " +
			"a multiple of 4096, i.e. relative to sector and bufio boundaries) x a batch of tails appended to its newest or a middle segment: zero runs of every " +
			"length 0-32 and 511/512/513/4095/4096/4097; a real next record truncated at EVERY byte length; EVERY single-bit flip of a complete appended put " +
			"record and delete record; PRNG garbage; a damaged record followed by a well-formed one; well-formed put/delete records (must be replayed). " +
			"Each image is opened with the real recovering Open on CrashFS/Mem/OS/OSMMap in rotation. Oracle = independent decoder of the documented format: " +
			"contents must equal the replay of each segment's valid record prefix in sequence order, every segment must afterwards be exactly as long as its " +
			"valid prefix, Open must not fail or panic; a flipped bit in key, value or CRC must invalidate the record (asserted on the decoder side too). " +
			"evaluations = tails recovered; distinct_nontrivial = distinct (tail category, tail bytes, end offset mod 512) with a non-empty tail.",
		Assumptions: []string{
			"the independent decoder (written from docs/design.md) defines 'what a validating reader of the documented format accepts'",
			"hash seed pinned",
		},
		Cases: func(tier string) int {
			if tier == "thorough" {
				return 1600
			}
			return 32
		},
		Run: runC08,
		Require: []string{"tail_zeros", "tail_truncated_record", "tail_bitflip", "tail_garbage", "tail_damaged_then_valid", "tail_valid_record",
			"target_middle_segment", "target_newest_segment", "fs_crash", "fs_mem", "fs_os", "fs_osmmap", "recoveries_that_truncated", "bitflips_in_length_field"},
	})
}

type tailCase struct {
	cat  string
	tail []byte
	// mustInvalidate: the appended bytes are a single record with one flipped bit outside the length fields
	mustInvalidate bool
}

func genTails(c *core.Ctx, thorough bool) []tailCase {
	rng := c.Rng
	var out []tailCase
	for n := 0; n <= 32; n++ {
		out = append(out, tailCase{cat: "zeros", tail: make([]byte, n)})
	}
	for _, n := range []int{511, 512, 513, 4095, 4096, 4097} {
		out = append(out, tailCase{cat: "zeros", tail: make([]byte, n)})
	}
	// a real next record truncated at every byte length
	key := []byte(fmt.Sprintf("tail-key-%d", rng.Intn(1000)))
	vlen := 20 + rng.Intn(60)
	if rng.Intn(3) == 0 {
		vlen = 500 + rng.Intn(200) // crosses a sector boundary
	}
	rec := encodeRecord(key, core.MakeVal(777, vlen), false)
	step := 1
	if !thorough && len(rec) > 150 {
		step = 3
	}
	for n := 1; n < len(rec); n += step {
		out = append(out, tailCase{cat: "truncated_record", tail: append([]byte(nil), rec[:n]...)})
	}
	for n := len(rec) - 12; n < len(rec); n++ { // always every length near the end (partial CRC)
		if n > 0 {
			out = append(out, tailCase{cat: "truncated_record", tail: append([]byte(nil), rec[:n]...)})
		}
	}
	// every single-bit flip of a complete appended record
	small := encodeRecord([]byte("flipkey!"), core.MakeVal(778, 12+rng.Intn(8)), false)
	del := encodeRecord([]byte("flipkey!"), nil, true)
	for _, r := range [][]byte{small, del} {
		for bit := 0; bit < len(r)*8; bit++ {
			t := append([]byte(nil), r...)
			t[bit/8] ^= 1 << (bit % 8)
			out = append(out, tailCase{cat: "bitflip", tail: t, mustInvalidate: bit/8 >= 6})
		}
	}
	// garbage
	ng := 12
	if thorough {
		ng = 40
	}
	for i := 0; i < ng; i++ {
		g := make([]byte, 1+rng.Intn(700))
		rng.Read(g)
		if i%3 == 0 && len(g) >= 2 {
			// small claimed sizes so that the "record" fits into the garbage
			g[0], g[1] = byte(rng.Intn(8)), 0
			if len(g) > 6 {
				g[2], g[3], g[4], g[5] = byte(rng.Intn(40)), 0, 0, 0
			}
		}
		out = append(out, tailCase{cat: "garbage", tail: g})
	}
	// a damaged record followed by a well-formed one
	for i := 0; i < 6; i++ {
		bad := encodeRecord([]byte("damaged"), core.MakeVal(779+i, 5+rng.Intn(40)), i%2 == 1)
		bad[6+rng.Intn(len(bad)-6)] ^= 0x40
		good := encodeRecord([]byte("good-after-damage"), core.MakeVal(790+i, 10), false)
		out = append(out, tailCase{cat: "damaged_then_valid", tail: append(bad, good...)})
	}
	// well-formed records (they are valid and must be replayed): put of a new key, overwrite, delete of an existing key
	out = append(out, tailCase{cat: "valid_record", tail: encodeRecord([]byte("brand-new"), core.MakeVal(800, 33), false)})
	out = append(out, tailCase{cat: "valid_record", tail: encodeRecord([]byte("align-key"), core.MakeVal(801, 3), false)})
	out = append(out, tailCase{cat: "valid_record", tail: encodeRecord([]byte("align-key"), nil, true)})
	out = append(out, tailCase{cat: "valid_record", tail: append(encodeRecord([]byte("align-key"), nil, true), make([]byte, 7)...)})
	out = append(out, tailCase{cat: "valid_record", tail: encodeRecord([]byte{}, []byte{}, false)})
	// well-formed records with the longest legal keys
	for _, kl := range []int{65535, 65530 + rng.Intn(5)} {
		k := make([]byte, kl)
		rng.Read(k)
		out = append(out, tailCase{cat: "valid_record", tail: encodeRecord(k, core.MakeVal(802, 5), false)})
	}
	return out
}

func runC08(c *core.Ctx) {
	rng := c.Rng
	seed := rng.Uint32()
	nseg := 1 + c.Case%4
	mods := []int{0, 1, 5, 6, 7, 506, 507, 508, 509, 510, 511, 512 - 6 - 4, 256, 100}
	endMod := mods[c.Case%len(mods)]
	around := c.Case%5 == 4
	if around {
		endMod = []int{0, 1, 6, 4090, 4095, 4086}[rng.Intn(6)]
	}
	tb, err := buildTailBase(rng, seed, nseg, endMod, around)
	if err != nil {
		c.Violation("setup-error", "building the base database failed: "+err.Error(), nil)
		return
	}
	target := tb.Segments[len(tb.Segments)-1]
	targetKind := "newest"
	if nseg > 1 && c.Case%3 == 1 {
		target = tb.Segments[rng.Intn(len(tb.Segments)-1)]
		targetKind = "middle"
	}
	if c.Case%8 == 6 {
		// the tail follows the bare header of a segment that holds no record yet (state right after a rollover)
		target = tb.addEmptyNewest()
		targetKind = "newest"
		c.Stat("target_header_only_segment", 1)
	}
	fsKinds := []core.FSKind{core.FSCrash, core.FSMem, core.FSOS, core.FSOSMMap}
	tails := genTails(c, c.Thorough())
	samples := []interface{}{}
	for ti, tc := range tails {
		fsk := fsKinds[(ti+c.Case)%4]
		if len(tc.tail) > 1000 && (fsk == core.FSOS || fsk == core.FSOSMMap) && !c.Thorough() && ti%2 == 0 {
			fsk = core.FSMem
		}
		im := tb.withTail(target, tc.tail)
		want, ends, err := expectedFromImage(im)
		if err != nil {
			c.Violation("setup-error", "decoder rejects the base image: "+err.Error(), nil)
			return
		}
		if tc.mustInvalidate {
			// decoder-side assertion of the CRC guarantee: the flipped record must not be accepted
			if ends[filepath.Base(target)] != int64(len(tb.Image[target])) {
				c.Violation("setup-error", "decoder accepted a record with a flipped bit in key/value/CRC", nil)
				return
			}
		}
		if tc.cat == "bitflip" && !tc.mustInvalidate {
			c.Stat("bitflips_in_length_field", 1)
		}
		c.Stat("tail_"+tc.cat, 1)
		c.Stat("target_"+targetKind+"_segment", 1)
		c.Stat("fs_"+string(fsk), 1)
		c.Eval(1)
		if len(tc.tail) == 0 {
			c.Trivial(1)
		} else {
			c.DistinctBytes(tc.cat, tc.tail, []byte{byte(len(tb.Image[target]) % 256), byte(len(tb.Image[target]) / 256 % 2)})
		}
		fail := func(sig, detail string) {
			c.Violation(sig+"/"+tc.cat, fmt.Sprintf("%s; base: %s; target %s (%s); tail category %s, %d bytes: %x; fs %s", detail, tb.Desc, filepath.Base(target), targetKind, tc.cat, len(tc.tail), trunc(tc.tail, 80), fsk),
				map[string]interface{}{"hash_seed": seed, "nseg": nseg, "end_mod": endMod, "tail_hex": fmt.Sprintf("%x", tc.tail), "fs": fsk, "image": core.DescribeImage(im)})
		}
		env, err := installImage(fsk, im)
		if err != nil {
			c.Violation("setup-error", "installing image: "+err.Error(), nil)
			return
		}
		func() {
			defer env.Cleanup()
			rec0 := core.Recoveries()
			db, err := env.Open(tb.Cfg)
			if err != nil {
				fail("recover-error", fmt.Sprintf("recovering Open failed: %v", err))
				return
			}
			defer db.Close()
			if core.Recoveries() == rec0 {
				fail("no-recovery", "Open of an unclean image did not run recovery")
				return
			}
			probe := append(append([][]byte{}, tb.Keys...), []byte("brand-new"), []byte("damaged"), []byte("good-after-damage"), []byte("flipkey!"), []byte{})
			st, err := core.Dump(db, probe)
			if err != nil {
				fail("readback-error", err.Error())
				return
			}
			if !st.Equal(want) {
				fail("recovered-contents", "contents after recovery differ from the replay of the valid record prefixes: "+st.Diff(want, 3))
				return
			}
			// segment lengths
			truncated := false
			for name, end := range ends {
				got := env.List(env.Dir)[name]
				if int64(len(im[filepath.Join("db", name)])) != end {
					truncated = true
				}
				if got != end {
					fail("segment-length", fmt.Sprintf("segment %s is %d bytes after recovery, its valid prefix ends at %d", name, got, end))
					return
				}
			}
			if truncated {
				c.Stat("recoveries_that_truncated", 1)
			}
			for _, s := range db.VerifSegments() {
				if !decoder.StrictSegmentName(s.Name) {
					fail("segment-name", "segment name "+s.Name+" is not %05d-%d.psg")
					return
				}
			}
		}()
		if c.Violations() >= 3 {
			return
		}
		if c.Case == 0 && len(samples) < 5 && ti%97 == 5 {
			samples = append(samples, map[string]interface{}{"base": tb.Desc, "target": filepath.Base(target), "category": tc.cat, "tail_hex": fmt.Sprintf("%x", trunc(tc.tail, 48)), "fs": fsk})
		}
	}
	if c.Case == 0 {
		c.Sample(samples)
	}
	_ = crashfs.Image{}
}

func trunc(b []byte, n int) []byte {
	if len(b) > n {
		return b[:n]
	}
	return b
}
