package checks

import (
	"bufio"
	"fmt"
	"os"
	"strconv"
	"strings"
	"unsafe"

	"github.com/akrylysov/pogreb"

	"pvh/internal/core"
)

func init() {
	core.Register(&core.Check{
		ID:    "C14",
		Level: "exploration",
		Rule: "one case = one generated program (C01's generator, read-heavy) on one of: PoisonFS (every buffer the file system hands out through Slice during an " +
			"API call is overwritten with 0xDB as soon as the call returns), fs.OSMMap (addresses of returned slices are compared with the mappings of database " +
			"files in /proc/self/maps), fs.OS, fs.Mem. Every slice returned by Get/GetAppend/ItemIterator.Next is compared with the reference right after the " +
			"poisoning and is RETAINED (up to 400 per case) and re-read after later overwrites, deletes, compactions that removed its segment, index growth and " +
			"after Close (a fault is caught via SetPanicOnFault and reported). Inputs: the key and value buffers passed to Put/Delete/Get/Has/GetAppend are " +
			"scribbled over as soon as the call returns; later reads, a clean restart and a recovery from a crash image must still see the original bytes. " +
			"GetAppend must return the caller's prefix followed by the value and leave the prefix untouched. evaluations = returned slices checked; " +
			"distinct_nontrivial = distinct (fs, API, value length class, what happened to the record afterwards) of non-empty returned slices.",
		Assumptions: []string{
			"memory obtained from File.Slice may be invalidated by any later call, so poisoning it after the API call returned is sound",
			"single goroutine",
		},
		Cases: func(tier string) int {
			if tier == "thorough" {
				return 6000
			}
			return 160
		},
		Run:     runC14,
		Require: []string{"slices_checked", "poisoned_buffers", "mmap_address_checks", "retained_rechecks", "retained_after_close", "retained_after_segment_removed", "inputs_scribbled", "fs_poison", "fs_osmmap", "fs_os", "fs_mem"},
	})
}

type mapping struct{ lo, hi uintptr }

func dbMappings(dir string) []mapping {
	f, err := os.Open("/proc/self/maps")
	if err != nil {
		return nil
	}
	defer f.Close()
	var out []mapping
	sc := bufio.NewScanner(f)
	for sc.Scan() {
		line := sc.Text()
		if !strings.Contains(line, dir) {
			continue
		}
		parts := strings.SplitN(strings.Fields(line)[0], "-", 2)
		lo, _ := strconv.ParseUint(parts[0], 16, 64)
		hi, _ := strconv.ParseUint(parts[1], 16, 64)
		out = append(out, mapping{uintptr(lo), uintptr(hi)})
	}
	return out
}

type retained struct {
	b      []byte
	want   string
	desc   string
	seg    string
	opIdx  int
}

// safeCompare re-reads a retained slice; a fault becomes faulted=true.
func safeCompare(b []byte, want string) (equal bool, faulted bool) {
	defer func() {
		if r := recover(); r != nil {
			faulted = true
		}
	}()
	return string(b) == want, false
}

func runC14(c *core.Ctx) {
	rng := c.Rng
	seed := rng.Uint32()
	core.PinSeed(seed)
	ks := core.GenKeys(rng, seed, core.KeySpec{SameHashGroups: 1, SameHashSize: 3, Chain16: 36 + rng.Intn(10), Plain: 20 + rng.Intn(60)})
	cfg := core.Config{MaxSeg: []uint32{2048, 4096, 16384}[rng.Intn(3)], MinSeg: 513, Frag: []float32{0.05, 0.2}[rng.Intn(2)]}
	kind := []string{"poison", "osmmap", "poison", "os", "poison", "mem", "osmmap", "poison"}[c.Case%8]
	var env *core.Env
	var poison *core.PoisonFS
	switch kind {
	case "poison":
		env = core.NewEnv(core.FSCrash)
		poison = core.NewPoisonFS(env.FS)
		env.FS = poison
	case "osmmap":
		env = core.NewEnv(core.FSOSMMap)
	case "os":
		env = core.NewEnv(core.FSOS)
	default:
		env = core.NewEnv(core.FSMem)
	}
	defer env.Cleanup()
	c.Stat("fs_"+kind, 1)
	db, err := env.Open(cfg)
	if err != nil {
		c.Violation("open-error", err.Error(), nil)
		return
	}
	ops := core.GenOps(rng, ks, core.ProgSpec{NOps: 300 + rng.Intn(900), CompactPct: 60, ValueSizes: []int{0, 1, 8, 16, 24, 40, 100, 300, 700}})
	ref := core.State{}
	var keep []retained
	violated := false
	fail := func(sig, detail string) {
		if !violated {
			c.Violation(sig, detail+fmt.Sprintf(" (fs %s)", kind), map[string]interface{}{"hash_seed": seed, "fs": kind, "config": cfg})
		}
		violated = true
	}
	apiDone := func() {
		if poison != nil {
			poison.Poison()
		}
	}
	var maps []mapping
	mapsAge := 0
	checkAddr := func(api string, b []byte) {
		if kind != "osmmap" || len(b) == 0 {
			return
		}
		if mapsAge == 0 {
			maps = dbMappings(env.Dir)
		}
		mapsAge = (mapsAge + 1) % 16
		p := uintptr(unsafe.Pointer(&b[0]))
		c.Stat("mmap_address_checks", 1)
		for _, m := range maps {
			if p >= m.lo && p < m.hi {
				fail("returned-slice-in-mapping", fmt.Sprintf("%s returned a slice at %#x which lies inside a memory mapping of a database file [%#x,%#x)", api, p, m.lo, m.hi))
			}
		}
	}
	slotSeg := func(key []byte) string { return "" }
	note := func(api string, idx int, b []byte, want string) {
		c.Eval(1)
		c.Stat("slices_checked", 1)
		if string(b) != want {
			fail("returned-slice-wrong-after-poison", fmt.Sprintf("op %d: %s returned %x.. but %x.. was written (after the buffers handed out by the file system during the call were overwritten)", idx, api, trunc(b, 16), trunc([]byte(want), 16)))
			return
		}
		checkAddr(api, b)
		if len(b) > 0 {
			if len(keep) < 400 {
				keep = append(keep, retained{b: b, want: want, desc: api, opIdx: idx})
			} else if rng.Intn(4) == 0 {
				keep[rng.Intn(len(keep))] = retained{b: b, want: want, desc: api, opIdx: idx}
			}
			lc := "small"
			if len(b) >= 100 {
				lc = "large"
			}
			c.Distinct(kind, api, lc, idx%7)
		} else {
			c.Trivial(1)
		}
	}
	_ = slotSeg
	recheck := func(when string) {
		for _, r := range keep {
			eq, faulted := safeCompare(r.b, r.want)
			c.Stat("retained_rechecks", 1)
			c.Stat("retained_"+when, 1)
			if faulted {
				fail("retained-slice-faulted", fmt.Sprintf("reading a slice returned by %s at op %d faulted %s", r.desc, r.opIdx, strings.ReplaceAll(when, "_", " ")))
				return
			}
			if !eq {
				fail("retained-slice-changed", fmt.Sprintf("a slice returned by %s at op %d changed its contents %s", r.desc, r.opIdx, strings.ReplaceAll(when, "_", " ")))
				return
			}
		}
	}
	scribble := func(b []byte) {
		for i := range b {
			b[i] ^= 0xA5
		}
		c.Stat("inputs_scribbled", 1)
	}
	for i, op := range ops {
		if violated {
			break
		}
		var key []byte
		if op.Key < len(ks.Keys) {
			key = append([]byte(nil), ks.Keys[op.Key]...) // private copy handed to the API, scribbled afterwards
		}
		skey := string(key)
		switch op.K {
		case core.OpPut:
			val := core.MakeVal(i, op.VLen)
			sval := string(val)
			err := db.Put(key, val)
			apiDone()
			scribble(key)
			scribble(val)
			if err != nil {
				fail("put-error", err.Error())
				break
			}
			ref[skey] = sval
		case core.OpDelete:
			err := db.Delete(key)
			apiDone()
			scribble(key)
			if err != nil {
				fail("delete-error", err.Error())
				break
			}
			delete(ref, skey)
		case core.OpGet, core.OpHas:
			v, err := db.Get(key)
			apiDone()
			scribble(key)
			if err != nil {
				fail("get-error", err.Error())
				break
			}
			w, ok := ref[skey]
			if ok != (v != nil) {
				fail("get-mismatch", fmt.Sprintf("op %d: Get presence %v, want %v", i, v != nil, ok))
				break
			}
			if ok {
				note("Get", i, v, w)
			}
		case core.OpGetAppend:
			buf := make([]byte, 6, 6+rng.Intn(64))
			copy(buf, "PREFIX")
			v, err := db.GetAppend(key, buf)
			apiDone()
			scribble(key)
			if err != nil {
				fail("getappend-error", err.Error())
				break
			}
			if string(buf) != "PREFIX" {
				fail("getappend-touched-prefix", fmt.Sprintf("op %d: GetAppend changed the caller's prefix to %q", i, buf))
				break
			}
			if w, ok := ref[skey]; ok {
				note("GetAppend", i, v, "PREFIX"+w)
			} else if v != nil {
				fail("get-mismatch", fmt.Sprintf("op %d: GetAppend of an absent key returned %d bytes", i, len(v)))
			}
		case core.OpItems, core.OpCount:
			it := db.Items()
			n := 0
			for {
				k, v, err := it.Next()
				apiDone()
				if err == pogreb.ErrIterationDone {
					break
				}
				if err != nil {
					fail("next-error", err.Error())
					break
				}
				// the returned slices are the caller's, including their spare capacity: writing there must not
				// disturb the other slice returned by the same call (or anything else)
				if cap(k) > len(k) {
					sp := k[len(k):cap(k)]
					for j := range sp {
						sp[j] = 0xEE
					}
					c.Stat("spare_capacity_scribbled", 1)
				}
				if cap(v) > len(v) {
					sp := v[len(v):cap(v)]
					for j := range sp {
						sp[j] = 0xEE
					}
					c.Stat("spare_capacity_scribbled", 1)
				}
				w, ok := ref[string(k)]
				if !ok {
					fail("next-mismatch", fmt.Sprintf("op %d: Next returned key %x which is not live (after poisoning)", i, trunc(k, 16)))
					break
				}
				note("Next(value)", i, v, w)
				note("Next(key)", i, k, string(k))
				n++
			}
			if !violated && n != len(ref) {
				fail("next-mismatch", fmt.Sprintf("op %d: scan returned %d pairs, want %d", i, n, len(ref)))
			}
		case core.OpSync:
			if err := db.Sync(); err != nil {
				fail("sync-error", err.Error())
			}
			apiDone()
		case core.OpCompact:
			before := len(db.VerifSegments())
			cr, err := db.Compact()
			apiDone()
			if err != nil {
				fail("compact-error", err.Error())
				break
			}
			if cr.CompactedSegments > 0 {
				c.Stat("compactions_effective", 1)
				_ = before
				recheck("after_segment_removed")
			}
		}
		if i%150 == 149 {
			recheck("periodic")
		}
	}
	if violated {
		db.Close()
		return
	}
	// inputs: recovery from a crash image and a clean restart must see the original bytes
	cenv := core.NewEnv(core.FSCrash)
	if err := env.CopyDirTo(cenv); err == nil {
		if rdb, err := cenv.Open(cfg); err != nil {
			fail("recover-error", err.Error())
		} else {
			st, err := core.Dump(rdb, ks.Keys)
			if err != nil {
				fail("input-scribble-visible", "after recovery: "+err.Error())
			} else if !st.Equal(ref) {
				fail("input-scribble-visible", "after recovery the contents differ from the bytes originally passed in: "+st.Diff(ref, 3))
			}
			rdb.Close()
		}
	}
	if err := db.Close(); err != nil {
		fail("close-error", err.Error())
		return
	}
	apiDone()
	recheck("after_close")
	if violated {
		return
	}
	db2, err := env.Open(cfg)
	if err != nil {
		fail("reopen-error", err.Error())
		return
	}
	st, err := core.Dump(db2, ks.Keys)
	if err != nil {
		fail("input-scribble-visible", "after clean restart: "+err.Error())
	} else if !st.Equal(ref) {
		fail("input-scribble-visible", "after a clean restart the contents differ from the bytes originally passed in: "+st.Diff(ref, 3))
	}
	db2.Close()
	recheck("after_close")
	if poison != nil {
		c.Stat("poisoned_buffers", poison.Poisoned)
	}
	if c.Case < 2 {
		c.Sample(map[string]interface{}{"fs": kind, "hash_seed": seed, "config": cfg, "nops": len(ops), "retained": len(keep), "first_ops": core.OpsToStrings(ops, 20)})
	}
}
