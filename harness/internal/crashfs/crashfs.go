// Package crashfs is an in-memory fs.FileSystem with inode semantics that logs every mutating call, so
// that the file system image a process crash or a power loss would leave behind can be materialised for
// every instant of a recorded execution.
//
// Fault models (as stated in properties C03/C04 and C06/C09):
//   - process crash after n logged calls: calls [0,n) fully applied, call n not applied or, for a data
//     write, applied up to a 512-byte-aligned file offset; directory operations are atomic.
//   - power loss after n logged calls: directory operations of [0,n) applied in order; every inode keeps
//     its content as of its last Sync plus an in-order prefix of the writes/truncations issued on it
//     since, the last one optionally cut at a 512-byte-aligned file offset.
package crashfs

import (
	"io"
	"os"
	"path/filepath"
	"sort"
	"sync"
	"time"

	"github.com/akrylysov/pogreb/fs"
)

type OpKind int

const (
	OpCreate   OpKind = iota // create inode Ino at Name
	OpWrite                  // write Data at Off in inode Ino
	OpTruncate               // set size of Ino to Size
	OpSync                   // fsync Ino
	OpRemove                 // unlink Name
	OpRename                 // rename Name -> Name2
)

var kindNames = [...]string{"create", "write", "truncate", "sync", "remove", "rename"}

func (k OpKind) String() string { return kindNames[k] }

// Op is one logged file system call.
type Op struct {
	Kind  OpKind
	Ino   int
	Name  string // create/remove/rename: path; write/truncate/sync: path the handle was opened with
	Name2 string
	Off   int64
	Size  int64
	Data  []byte
	API   int // id of the API operation in flight (FS.CurAPI when the call was made)
}

type inode struct {
	id     int
	data   []byte
	holder bool // flock held
}

// FS implements fs.FileSystem.
type FS struct {
	mu      sync.Mutex
	names   map[string]*inode
	nextIno int
	Log     []Op
	CurAPI  int
	// Read accounting (bytes), by file extension (".psg", ".pix", ".pmt", ...).
	ReadBytes map[string]int64
	ReadCalls int64
	// MaxReadReq is the largest single read request (len(p) or end-start) seen.
	MaxReadReq int64
}

func New() *FS { return &FS{names: map[string]*inode{}, ReadBytes: map[string]int64{}} }

func (f *FS) log(op Op) { op.API = f.CurAPI; f.Log = append(f.Log, op) }

// LogLen returns the number of logged calls.
func (f *FS) LogLen() int {
	f.mu.Lock()
	defer f.mu.Unlock()
	return len(f.Log)
}

// Image is a materialised file system content: path -> bytes.
type Image map[string][]byte

func (im Image) Clone() Image {
	c := Image{}
	for n, d := range im {
		c[n] = append([]byte(nil), d...)
	}
	return c
}

func (im Image) Names() []string {
	names := make([]string, 0, len(im))
	for n := range im {
		names = append(names, n)
	}
	sort.Strings(names)
	return names
}

// Snapshot returns the current content (what a process crash right now would leave).
func (f *FS) Snapshot() Image {
	f.mu.Lock()
	defer f.mu.Unlock()
	im := Image{}
	for n, i := range f.names {
		im[n] = append([]byte(nil), i.data...)
	}
	return im
}

// FromImage builds a fresh FS (empty log) holding the image's files; no locks are held.
// Inode ids are 1..k in sorted name order, which is what the replayers assume for a base image.
func FromImage(im Image) *FS {
	f := New()
	for _, n := range im.Names() {
		f.nextIno++
		f.names[n] = &inode{id: f.nextIno, data: append([]byte(nil), im[n]...)}
	}
	return f
}

func applyWrite(d []byte, off int64, p []byte) []byte {
	end := off + int64(len(p))
	if end > int64(len(d)) {
		if end <= int64(cap(d)) {
			old := len(d)
			d = d[:end]
			for i := old; int64(i) < off; i++ {
				d[i] = 0
			}
		} else {
			nd := make([]byte, end, end+end/4+64)
			copy(nd, d)
			d = nd
		}
	}
	copy(d[off:end], p)
	return d
}

func applyTrunc(d []byte, size int64) []byte {
	if size <= int64(len(d)) {
		return d[:size]
	}
	old := len(d)
	if size <= int64(cap(d)) {
		d = d[:size]
		for i := old; i < len(d); i++ {
			d[i] = 0
		}
		return d
	}
	nd := make([]byte, size, size+size/4+64)
	copy(nd, d)
	return nd
}

// TearPoints returns the prefix lengths at which a data write can be cut: the 512-aligned file offsets
// strictly inside the written range, expressed as number of bytes of the write that were applied.
func TearPoints(op Op) []int {
	if op.Kind != OpWrite {
		return nil
	}
	var out []int
	start := op.Off
	end := op.Off + int64(len(op.Data))
	for b := (start/512 + 1) * 512; b < end; b += 512 {
		out = append(out, int(b-start))
	}
	return out
}

// ---- process-crash replayer (incremental)

// ProcReplayer materialises process-crash images of base+ops incrementally.
type ProcReplayer struct {
	ops   []Op
	n     int
	names map[string]int
	data  map[int][]byte
}

func NewProcReplayer(base Image, ops []Op) *ProcReplayer {
	r := &ProcReplayer{ops: ops, names: map[string]int{}, data: map[int][]byte{}}
	for i, nme := range base.Names() {
		r.names[nme] = i + 1
		r.data[i+1] = append([]byte(nil), base[nme]...)
	}
	return r
}

func (r *ProcReplayer) apply(op Op) {
	switch op.Kind {
	case OpCreate:
		r.names[op.Name] = op.Ino
		r.data[op.Ino] = nil
	case OpWrite:
		r.data[op.Ino] = applyWrite(r.data[op.Ino], op.Off, op.Data)
	case OpTruncate:
		r.data[op.Ino] = applyTrunc(r.data[op.Ino], op.Size)
	case OpRemove:
		delete(r.names, op.Name)
	case OpRename:
		r.names[op.Name2] = r.names[op.Name]
		delete(r.names, op.Name)
	}
}

// Advance applies ops until n calls are applied (n must not decrease).
func (r *ProcReplayer) Advance(n int) {
	if n < r.n {
		panic("crashfs: ProcReplayer cannot go back")
	}
	for r.n < n {
		r.apply(r.ops[r.n])
		r.n++
	}
}

// Image returns the image with exactly r.n calls applied plus, if tear > 0 and call n is a write, the
// first tear bytes of it.
func (r *ProcReplayer) Image(tear int) Image {
	im := Image{}
	for nme, ino := range r.names {
		im[nme] = append([]byte(nil), r.data[ino]...)
	}
	if tear > 0 && r.n < len(r.ops) && r.ops[r.n].Kind == OpWrite {
		op := r.ops[r.n]
		for nme, ino := range r.names {
			if ino == op.Ino {
				im[nme] = applyWrite(im[nme], op.Off, op.Data[:tear])
			}
		}
	}
	return im
}

// ---- power-loss replayer (incremental)

// PowerReplayer tracks, per inode, the durable content and the pending (unsynced) data operations.
type PowerReplayer struct {
	ops     []Op
	n       int
	names   map[string]int
	durable map[int][]byte
	pending map[int][]Op
}

func NewPowerReplayer(base Image, ops []Op) *PowerReplayer {
	r := &PowerReplayer{ops: ops, names: map[string]int{}, durable: map[int][]byte{}, pending: map[int][]Op{}}
	for i, nme := range base.Names() {
		r.names[nme] = i + 1
		r.durable[i+1] = append([]byte(nil), base[nme]...)
	}
	return r
}

func applyData(d []byte, op Op, lim int) []byte {
	switch op.Kind {
	case OpWrite:
		p := op.Data
		if lim >= 0 && lim < len(p) {
			p = p[:lim]
		}
		return applyWrite(d, op.Off, p)
	case OpTruncate:
		return applyTrunc(d, op.Size)
	}
	return d
}

func (r *PowerReplayer) Advance(n int) {
	if n < r.n {
		panic("crashfs: PowerReplayer cannot go back")
	}
	for r.n < n {
		op := r.ops[r.n]
		switch op.Kind {
		case OpCreate:
			r.names[op.Name] = op.Ino
			r.durable[op.Ino] = nil
			r.pending[op.Ino] = nil
		case OpWrite, OpTruncate:
			r.pending[op.Ino] = append(r.pending[op.Ino], op)
		case OpSync:
			d := r.durable[op.Ino]
			for _, p := range r.pending[op.Ino] {
				d = applyData(d, p, -1)
			}
			r.durable[op.Ino] = d
			r.pending[op.Ino] = nil
		case OpRemove:
			delete(r.names, op.Name)
		case OpRename:
			r.names[op.Name2] = r.names[op.Name]
			delete(r.names, op.Name)
		}
		r.n++
	}
}

// Pending returns, for each linked inode that has unsynced data operations, their number.
func (r *PowerReplayer) Pending() map[int]int {
	out := map[int]int{}
	for _, ino := range r.names {
		if n := len(r.pending[ino]); n > 0 {
			out[ino] = n
		}
	}
	return out
}

// PendingOps returns the pending data operations of an inode.
func (r *PowerReplayer) PendingOps(ino int) []Op { return r.pending[ino] }

// InoNames returns the paths currently linked, by inode.
func (r *PowerReplayer) InoNames() map[int]string {
	out := map[int]string{}
	for nme, ino := range r.names {
		out[ino] = nme
	}
	return out
}

// Image materialises a power-loss image: keep(ino, pending) returns how many of the pending operations of
// that inode survive (a prefix) and, if >0, how many bytes of the next one (which must be a write).
func (r *PowerReplayer) Image(keep func(ino int, pending []Op) (int, int)) Image {
	im := Image{}
	for nme, ino := range r.names {
		d := append([]byte(nil), r.durable[ino]...)
		pend := r.pending[ino]
		if len(pend) > 0 {
			k, tear := keep(ino, pend)
			if k > len(pend) {
				k = len(pend)
			}
			for j := 0; j < k; j++ {
				d = applyData(d, pend[j], -1)
			}
			if tear > 0 && k < len(pend) && pend[k].Kind == OpWrite {
				d = applyData(d, pend[k], tear)
			}
		}
		im[nme] = d
	}
	return im
}

// ---- fs.FileSystem implementation

func clean(n string) string { return filepath.Clean(n) }

func notExist(op, name string) error { return &os.PathError{Op: op, Path: name, Err: os.ErrNotExist} }

func (f *FS) OpenFile(name string, flag int, perm os.FileMode) (fs.File, error) {
	f.mu.Lock()
	defer f.mu.Unlock()
	name = clean(name)
	i := f.names[name]
	if i == nil {
		if flag&os.O_CREATE == 0 {
			return nil, notExist("open", name)
		}
		f.nextIno++
		i = &inode{id: f.nextIno}
		f.names[name] = i
		f.log(Op{Kind: OpCreate, Ino: i.id, Name: name})
	} else if flag&os.O_TRUNC != 0 && len(i.data) != 0 {
		i.data = nil
		f.log(Op{Kind: OpTruncate, Ino: i.id, Name: name, Size: 0})
	}
	return &file{fs: f, ino: i, name: name, rdonly: flag&(os.O_RDWR|os.O_WRONLY) == 0}, nil
}

func (f *FS) Stat(name string) (os.FileInfo, error) {
	f.mu.Lock()
	defer f.mu.Unlock()
	name = clean(name)
	i := f.names[name]
	if i == nil {
		return nil, notExist("stat", name)
	}
	return info{name: filepath.Base(name), size: int64(len(i.data))}, nil
}

func (f *FS) removeLocked(name string) error {
	i := f.names[name]
	if i == nil {
		return notExist("remove", name)
	}
	delete(f.names, name)
	f.log(Op{Kind: OpRemove, Name: name})
	return nil
}

func (f *FS) Remove(name string) error {
	f.mu.Lock()
	defer f.mu.Unlock()
	return f.removeLocked(clean(name))
}

func (f *FS) Rename(a, b string) error {
	f.mu.Lock()
	defer f.mu.Unlock()
	a, b = clean(a), clean(b)
	i := f.names[a]
	if i == nil {
		return notExist("rename", a)
	}
	delete(f.names, a)
	f.names[b] = i
	f.log(Op{Kind: OpRename, Name: a, Name2: b})
	return nil
}

func (f *FS) ReadDir(dir string) ([]os.DirEntry, error) {
	f.mu.Lock()
	defer f.mu.Unlock()
	dir = clean(dir)
	var out []os.DirEntry
	for n, i := range f.names {
		if filepath.Dir(n) == dir {
			out = append(out, info{name: filepath.Base(n), size: int64(len(i.data))})
		}
	}
	sort.Slice(out, func(a, b int) bool { return out[a].Name() < out[b].Name() })
	return out, nil
}

func (f *FS) MkdirAll(path string, perm os.FileMode) error { return nil }

type lockFile struct {
	fs   *FS
	ino  *inode
	name string
	done bool
}

func (f *FS) CreateLockFile(name string, perm os.FileMode) (fs.LockFile, bool, error) {
	f.mu.Lock()
	defer f.mu.Unlock()
	name = clean(name)
	i := f.names[name]
	existed := i != nil
	if i != nil && i.holder {
		return nil, false, os.ErrExist
	}
	if i == nil {
		f.nextIno++
		i = &inode{id: f.nextIno}
		f.names[name] = i
		f.log(Op{Kind: OpCreate, Ino: i.id, Name: name})
	}
	i.holder = true
	return &lockFile{fs: f, ino: i, name: name}, existed, nil
}

func (l *lockFile) Unlock() error {
	l.fs.mu.Lock()
	defer l.fs.mu.Unlock()
	if l.done {
		return os.ErrClosed
	}
	if err := l.fs.removeLocked(l.name); err != nil {
		return err
	}
	l.ino.holder = false
	l.done = true
	return nil
}

// Holders returns the number of lock holders (for C13 on this file system).
func (f *FS) Holders() int {
	f.mu.Lock()
	defer f.mu.Unlock()
	n := 0
	for _, i := range f.names {
		if i.holder {
			n++
		}
	}
	return n
}

type info struct {
	name string
	size int64
}

func (i info) Name() string               { return i.name }
func (i info) Size() int64                { return i.size }
func (i info) Mode() os.FileMode          { return 0640 }
func (i info) ModTime() time.Time         { return time.Time{} }
func (i info) IsDir() bool                { return false }
func (i info) Sys() interface{}           { return nil }
func (i info) Type() os.FileMode          { return 0 }
func (i info) Info() (os.FileInfo, error) { return i, nil }

type file struct {
	fs     *FS
	ino    *inode
	name   string
	pos    int64
	rdonly bool
	closed bool
}

func (h *file) countRead(req, n int64) {
	h.fs.ReadBytes[filepath.Ext(h.name)] += n
	h.fs.ReadCalls++
	if req > h.fs.MaxReadReq {
		h.fs.MaxReadReq = req
	}
}

func (h *file) Close() error {
	h.fs.mu.Lock()
	defer h.fs.mu.Unlock()
	if h.closed {
		return os.ErrClosed
	}
	h.closed = true
	return nil
}

func (h *file) ReadAt(p []byte, off int64) (int, error) {
	h.fs.mu.Lock()
	defer h.fs.mu.Unlock()
	if h.closed {
		return 0, os.ErrClosed
	}
	d := h.ino.data
	if off >= int64(len(d)) {
		return 0, io.EOF
	}
	n := copy(p, d[off:])
	h.countRead(int64(len(p)), int64(n))
	if n < len(p) {
		return n, io.EOF
	}
	return n, nil
}

func (h *file) Read(p []byte) (int, error) {
	h.fs.mu.Lock()
	defer h.fs.mu.Unlock()
	if h.closed {
		return 0, os.ErrClosed
	}
	if len(p) == 0 {
		return 0, nil
	}
	d := h.ino.data
	if h.pos >= int64(len(d)) {
		return 0, io.EOF
	}
	n := copy(p, d[h.pos:])
	h.pos += int64(n)
	h.countRead(int64(len(p)), int64(n))
	return n, nil
}

func (h *file) Seek(off int64, whence int) (int64, error) {
	h.fs.mu.Lock()
	defer h.fs.mu.Unlock()
	if h.closed {
		return 0, os.ErrClosed
	}
	switch whence {
	case io.SeekStart:
		h.pos = off
	case io.SeekCurrent:
		h.pos += off
	case io.SeekEnd:
		h.pos = int64(len(h.ino.data)) + off
	}
	return h.pos, nil
}

func (h *file) writeAtLocked(p []byte, off int64) (int, error) {
	if h.closed {
		return 0, os.ErrClosed
	}
	if h.rdonly {
		return 0, &os.PathError{Op: "write", Path: h.name, Err: os.ErrPermission}
	}
	if len(p) == 0 {
		return 0, nil
	}
	h.ino.data = applyWrite(h.ino.data, off, p)
	h.fs.log(Op{Kind: OpWrite, Ino: h.ino.id, Name: h.name, Off: off, Data: append([]byte(nil), p...)})
	return len(p), nil
}

func (h *file) WriteAt(p []byte, off int64) (int, error) {
	h.fs.mu.Lock()
	defer h.fs.mu.Unlock()
	return h.writeAtLocked(p, off)
}

func (h *file) Write(p []byte) (int, error) {
	h.fs.mu.Lock()
	defer h.fs.mu.Unlock()
	n, err := h.writeAtLocked(p, h.pos)
	h.pos += int64(n)
	return n, err
}

func (h *file) Stat() (os.FileInfo, error) {
	h.fs.mu.Lock()
	defer h.fs.mu.Unlock()
	if h.closed {
		return nil, os.ErrClosed
	}
	return info{name: filepath.Base(h.name), size: int64(len(h.ino.data))}, nil
}

func (h *file) Sync() error {
	h.fs.mu.Lock()
	defer h.fs.mu.Unlock()
	if h.closed {
		return os.ErrClosed
	}
	h.fs.log(Op{Kind: OpSync, Ino: h.ino.id, Name: h.name})
	return nil
}

func (h *file) Truncate(size int64) error {
	h.fs.mu.Lock()
	defer h.fs.mu.Unlock()
	if h.closed {
		return os.ErrClosed
	}
	if h.rdonly {
		return &os.PathError{Op: "truncate", Path: h.name, Err: os.ErrInvalid}
	}
	h.ino.data = applyTrunc(h.ino.data, size)
	h.fs.log(Op{Kind: OpTruncate, Ino: h.ino.id, Name: h.name, Size: size})
	return nil
}

func (h *file) Slice(start, end int64) ([]byte, error) {
	h.fs.mu.Lock()
	defer h.fs.mu.Unlock()
	if h.closed {
		return nil, os.ErrClosed
	}
	if end > int64(len(h.ino.data)) {
		return nil, io.EOF
	}
	h.countRead(end-start, end-start)
	return append([]byte(nil), h.ino.data[start:end]...), nil
}
