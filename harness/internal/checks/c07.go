package checks

import (
	"fmt"
	"os"
	"path/filepath"
	"sort"
	"strings"
	"sync"
	"sync/atomic"
	"time"

	"github.com/akrylysov/pogreb"
	"github.com/anishathalye/porcupine"

	"pvh/internal/core"
)

func init() {
	core.Register(&core.Check{
		ID:    "C07",
		Level: "exploration",
		Race:  true,
		Rule: "one case = one concurrent run (race-detector build): 4-12 worker goroutines x 80-250 calls of Put/Delete/Get/GetAppend/Has over 2-6 hot keys (some " +
			"sharing the full 32-bit hash, some in one overflow chain with ballast keys) plus unique churn keys that force index splits, with a Compact loop " +
			"(thresholds keep it firing), Sync, Count, Backup and Items scanners alongside, the background sync/compaction worker at 1 ms in half of the runs, " +
			"and the compaction yield hook either sleeping 0-200 us or handing the lock-free window to a dedicated writer (handshake) so that a write lands " +
			"between two records. Every client call is recorded {client, op, arguments, call ticket, result, return ticket} at the client boundary with tickets " +
			"from one atomic counter; all written values are unique. Oracle: porcupine.CheckOperationsVerbose against a per-key register-with-delete model " +
			"(partitioned by key), 60 s timeout (Unknown = inconclusive); a final Get of every key after all workers joined is part of the history; every Count " +
			"result must lie within sound bounds derived from the history (keys surely present / surely absent throughout the call). evaluations = recorded " +
			"operations checked; distinct_nontrivial = distinct per-key sub-history fingerprints with at least two overlapping operations.",
		Assumptions: []string{
			"tickets from one atomic counter are consistent with real-time order",
			"Items scans are judged by C11's rule, not by linearizability",
			"only interleavings produced by the Go scheduler plus the hooks are observed",
		},
		Cases: func(tier string) int {
			if tier == "thorough" {
				return 4000
			}
			return 64
		},
		Run:     runC07,
		Require: []string{"ops_recorded", "histories_linearizable", "compactions_overlapped", "writer_in_window", "count_calls_checked", "max_concurrency", "fs_mem", "fs_os", "fs_osmmap", "bg_worker_runs"},
		PostChild: func(p *core.Parent, shard int, logPath string) {
			n := countRaceReports(p.WorkDir, shard)
			if n > 0 {
				p.AddStat("race_reports_seen_in_c07_workload(judged_by_C10)", int64(n))
			}
		},
	})
}

// countRaceReports counts WARNING: DATA RACE blocks in the race logs of a shard.
func countRaceReports(work string, shard int) int {
	matches, _ := filepath.Glob(filepath.Join(work, fmt.Sprintf("race-%d.*", shard)))
	n := 0
	for _, m := range matches {
		b, err := os.ReadFile(m)
		if err == nil {
			n += strings.Count(string(b), "WARNING: DATA RACE")
		}
	}
	return n
}

type regIn struct {
	kind string
	val  string
}
type regOut struct {
	val   string
	found bool
}

const absent = "\x00absent"

var registerModel = porcupine.Model{
	Init: func() interface{} { return absent },
	Step: func(state, input, output interface{}) (bool, interface{}) {
		st := state.(string)
		in := input.(regIn)
		out := output.(regOut)
		switch in.kind {
		case "put":
			return true, in.val
		case "del":
			return true, absent
		case "get", "getappend":
			if st == absent {
				return !out.found, st
			}
			return out.found && out.val == st, st
		case "has":
			return out.found == (st != absent), st
		}
		return false, st
	},
	DescribeOperation: func(input, output interface{}) string {
		in := input.(regIn)
		out := output.(regOut)
		switch in.kind {
		case "put":
			return fmt.Sprintf("put(%s)", in.val)
		case "del":
			return "del"
		}
		return fmt.Sprintf("%s -> (%q,%v)", in.kind, out.val, out.found)
	},
}

func runC07(c *core.Ctx) {
	rng := c.Rng
	seed := rng.Uint32()
	core.PinSeed(seed)
	fsk := []core.FSKind{core.FSMem, core.FSOS, core.FSOSMMap}[c.Case%3]
	c.Stat("fs_"+string(fsk), 1)
	cfg := core.Config{MaxSeg: []uint32{2048, 4096, 8192}[rng.Intn(3)], MinSeg: 513, Frag: 0.05}
	bg := c.Case%2 == 1
	if bg {
		cfg.BgSync = time.Millisecond
		cfg.BgCompact = time.Millisecond
		c.Stat("bg_worker_runs", 1)
	}
	env := core.NewEnv(fsk)
	defer env.Cleanup()
	db, err := env.Open(cfg)
	if err != nil {
		c.Violation("open-error", err.Error(), nil)
		return
	}
	// keys: hot keys (some with identical hash, some in one chain), ballast in the same chain
	ks := core.GenKeys(rng, seed, core.KeySpec{SameHashGroups: 1, SameHashSize: 3, Chain16: 36 + rng.Intn(10)})
	same := ks.ByClass("samehash")
	chain := ks.ByClass("chain16")
	nhot := 2 + rng.Intn(5)
	var hot [][]byte
	for i := 0; i < nhot; i++ {
		switch {
		case i < 2 && i < len(same):
			hot = append(hot, ks.Keys[same[i]])
		case i < 4:
			hot = append(hot, ks.Keys[chain[i]])
		default:
			hot = append(hot, []byte(fmt.Sprintf("hot-%d", i)))
		}
	}
	ballast := map[string]bool{}
	for _, ci := range chain[4:] {
		k := ks.Keys[ci]
		if err := db.Put(k, []byte("ballast")); err != nil {
			c.Violation("put-error", err.Error(), nil)
			return
		}
		ballast[string(k)] = true
	}
	rec := core.NewRecorder()
	clock := &rec.Clock
	nworkers := 4 + rng.Intn(9)
	perWorker := 80 + rng.Intn(170)
	var wg sync.WaitGroup
	var opErr atomic.Value
	stop := make(chan struct{})
	var compactions, inWindow atomic.Int64
	var active, maxActive atomic.Int64
	enter := func() {
		a := active.Add(1)
		for {
			m := maxActive.Load()
			if a <= m || maxActive.CompareAndSwap(m, a) {
				break
			}
		}
	}
	doOp := func(buf *[]core.OpRec, client int, kind string, key []byte, val string) {
		r := core.OpRec{Client: client, Kind: kind, Key: string(key), Val: val}
		enter()
		r.Call = clock.Tick()
		var err error
		switch kind {
		case "put":
			err = db.Put(key, []byte(val))
		case "del":
			err = db.Delete(key)
		case "get":
			var v []byte
			v, err = db.Get(key)
			r.Found, r.Val = v != nil, string(v)
		case "getappend":
			var v []byte
			v, err = db.GetAppend(key, []byte("p:"))
			r.Found = v != nil
			if v != nil {
				if !strings.HasPrefix(string(v), "p:") {
					err = fmt.Errorf("GetAppend lost the caller's prefix: %q", v)
				}
				r.Val = strings.TrimPrefix(string(v), "p:")
			}
		case "has":
			r.Found, err = db.Has(key)
		case "count":
			r.N = db.Count()
		}
		r.Ret = clock.Tick()
		active.Add(-1)
		if err != nil {
			r.Err = err.Error()
			opErr.Store(fmt.Errorf("%s(%x): %w", kind, trunc(key, 12), err))
		}
		*buf = append(*buf, r)
	}
	// window writer: performs one recorded write when the compaction goroutine hands it the window
	window := make(chan struct{})
	windowDone := make(chan struct{})
	wbuf := rec.Client(1000)
	var wwg sync.WaitGroup
	wwg.Add(1)
	go func() {
		defer wwg.Done()
		r := newRand(int64(seed) + 7)
		n := 0
		for {
			select {
			case <-window:
			case <-stop:
				return
			}
			n++
			k := hot[r.Intn(len(hot))]
			if r.Intn(3) == 0 {
				doOp(wbuf, 1000, "del", k, "")
			} else {
				doOp(wbuf, 1000, "put", k, fmt.Sprintf("w-%d", n))
			}
			inWindow.Add(1)
			windowDone <- struct{}{}
		}
	}()
	var recordYields atomic.Int64
	hookRng := newRand(int64(seed) + 11)
	var hookMu sync.Mutex
	handshake := c.Case%4 < 2
	core.SetYield(func(d *pogreb.DB, point string) {
		if d != db || point != "compact:record" {
			return
		}
		recordYields.Add(1)
		hookMu.Lock()
		x := hookRng.Intn(100)
		us := hookRng.Intn(200)
		hookMu.Unlock()
		if handshake && x < 30 {
			select {
			case window <- struct{}{}:
				<-windowDone
			case <-stop:
			}
		} else if x < 60 {
			time.Sleep(time.Duration(us) * time.Microsecond)
		}
	})
	defer core.SetYield(nil)
	churnSeq := atomic.Int64{}
	for w := 0; w < nworkers; w++ {
		wg.Add(1)
		wseed := rng.Int63()
		go func(w int) {
			defer wg.Done()
			buf := rec.Client(w)
			r := newRand(wseed)
			for i := 0; i < perWorker; i++ {
				k := hot[r.Intn(len(hot))]
				switch x := r.Intn(100); {
				case x < 30:
					doOp(buf, w, "put", k, fmt.Sprintf("g%d-%d-%s", w, i, strings.Repeat("p", r.Intn(60))))
				case x < 42:
					doOp(buf, w, "del", k, "")
				case x < 62:
					doOp(buf, w, "get", k, "")
				case x < 72:
					doOp(buf, w, "getappend", k, "")
				case x < 82:
					doOp(buf, w, "has", k, "")
				case x < 86:
					doOp(buf, w, "count", nil, "")
				default:
					// churn: a unique key, put once (forces splits under the readers), sometimes deleted again
					ck := []byte(fmt.Sprintf("churn-%d", churnSeq.Add(1)))
					doOp(buf, w, "put", ck, fmt.Sprintf("c%d-%d", w, i))
					if r.Intn(3) == 0 {
						doOp(buf, w, "del", ck, "")
					}
				}
			}
		}(w)
	}
	// maintenance goroutines
	var mwg sync.WaitGroup
	mwg.Add(1)
	go func() {
		defer mwg.Done()
		for {
			select {
			case <-stop:
				return
			default:
			}
			if cr, err := db.Compact(); err == nil && cr.CompactedSegments > 0 {
				compactions.Add(int64(cr.CompactedSegments))
			}
		}
	}()
	mwg.Add(1)
	go func() {
		defer mwg.Done()
		n := 0
		for {
			select {
			case <-stop:
				return
			default:
			}
			n++
			switch n % 3 {
			case 0:
				db.Sync()
			case 1:
				it := db.Items()
				for {
					if _, _, err := it.Next(); err != nil {
						break
					}
				}
			case 2:
				bdir := env.Sub(fmt.Sprintf("bk-%d", n))
				if err := db.Backup(bdir); err != nil {
					opErr.Store(fmt.Errorf("backup: %w", err))
				}
				env.RemoveAllIn(bdir)
				if fsk != core.FSMem {
					os.RemoveAll(bdir)
				}
			}
			time.Sleep(300 * time.Microsecond)
		}
	}()
	wg.Wait()
	close(stop)
	mwg.Wait()
	core.SetYield(nil)
	wwg.Wait()
	if e := opErr.Load(); e != nil {
		c.Violation("op-error", fmt.Sprintf("an operation failed during the concurrent run: %v", e), map[string]interface{}{"hash_seed": seed, "fs": fsk, "config": cfg})
		db.Close()
		return
	}
	// final quiescent read-back joins the history
	fbuf := rec.Client(2000)
	all := rec.All()
	keySet := map[string]bool{}
	for _, o := range all {
		if o.Kind != "count" {
			keySet[o.Key] = true
		}
	}
	var keyList []string
	for k := range keySet {
		keyList = append(keyList, k)
	}
	sort.Strings(keyList)
	for _, k := range keyList {
		doOp(fbuf, 2000, "get", []byte(k), "")
	}
	finalCount := db.Count()
	all = rec.All()
	c.Stat("ops_recorded", int64(len(all)))
	c.Eval(int64(len(all)))
	c.StatMax("max_concurrency", maxActive.Load())
	c.Stat("compactions_overlapped", compactions.Load())
	c.Stat("writer_in_window", inWindow.Load())
	c.Stat("compaction_record_windows", recordYields.Load())
	// porcupine
	var pops []porcupine.Operation
	byKey := map[string][]core.OpRec{}
	for _, o := range all {
		if o.Kind == "count" {
			continue
		}
		byKey[o.Key] = append(byKey[o.Key], o)
		pops = append(pops, porcupine.Operation{ClientId: o.Client % 4096, Input: regKeyIn{o.Key, regIn{o.Kind, o.Val}}, Call: o.Call, Output: regOut{o.Val, o.Found}, Return: o.Ret})
	}
	model := registerModel
	model.Partition = func(history []porcupine.Operation) [][]porcupine.Operation {
		m := map[string][]porcupine.Operation{}
		var order []string
		for _, op := range history {
			k := op.Input.(regKeyIn).key
			if _, ok := m[k]; !ok {
				order = append(order, k)
			}
			op.Input = op.Input.(regKeyIn).in
			m[k] = append(m[k], op)
		}
		var out [][]porcupine.Operation
		for _, k := range order {
			out = append(out, m[k])
		}
		return out
	}
	res, info := porcupine.CheckOperationsVerbose(model, pops, 60*time.Second)
	switch res {
	case porcupine.Ok:
		c.Stat("histories_linearizable", 1)
	case porcupine.Unknown:
		c.Inconclusive("porcupine timed out after 60 s on a history of %d operations", len(pops))
	case porcupine.Illegal:
		// find the offending key: re-check per key
		bad := ""
		var badOps []string
		for k, ops := range byKey {
			var kp []porcupine.Operation
			for _, o := range ops {
				kp = append(kp, porcupine.Operation{ClientId: o.Client % 4096, Input: regIn{o.Kind, o.Val}, Call: o.Call, Output: regOut{o.Val, o.Found}, Return: o.Ret})
			}
			m2 := registerModel
			if r, _ := porcupine.CheckOperationsVerbose(m2, kp, 30*time.Second); r == porcupine.Illegal {
				bad = k
				sort.Slice(ops, func(i, j int) bool { return ops[i].Call < ops[j].Call })
				from := 0
				if len(ops) > 60 {
					from = len(ops) - 60
				}
				for _, o := range ops[from:] {
					badOps = append(badOps, fmt.Sprintf("[%d,%d] client %d %s %q found=%v", o.Call, o.Ret, o.Client, o.Kind, o.Val, o.Found))
				}
				break
			}
		}
		_ = info
		c.Violation("not-linearizable", fmt.Sprintf("the recorded history of key %x (%d operations) has no linearization against a register with delete; fs %s, bg worker %v, %d compactions overlapped, %d writes placed inside compaction windows",
			trunc([]byte(bad), 12), len(byKey[bad]), fsk, bg, compactions.Load(), inWindow.Load()),
			map[string]interface{}{"hash_seed": seed, "fs": fsk, "config": cfg, "key_hex": fmt.Sprintf("%x", bad), "history_tail": badOps})
		db.Close()
		return
	}
	for k, ops := range byKey {
		overl := 0
		sort.Slice(ops, func(i, j int) bool { return ops[i].Call < ops[j].Call })
		for i := 1; i < len(ops); i++ {
			if ops[i].Call < ops[i-1].Ret {
				overl++
			}
		}
		if overl > 0 && !strings.HasPrefix(k, "churn-") {
			c.Distinct("hist", seed, k, len(ops), overl)
		} else {
			c.Trivial(1)
		}
	}
	// Count bounds
	type kops struct{ puts, dels []core.OpRec }
	perKey := map[string]*kops{}
	for k := range ballast {
		perKey[k] = &kops{puts: []core.OpRec{{Kind: "put", Call: -2, Ret: -1}}}
	}
	for _, o := range all {
		if o.Kind != "put" && o.Kind != "del" {
			continue
		}
		ko := perKey[o.Key]
		if ko == nil {
			ko = &kops{}
			perKey[o.Key] = ko
		}
		if o.Kind == "put" {
			ko.puts = append(ko.puts, o)
		} else {
			ko.dels = append(ko.dels, o)
		}
	}
	checkCount := func(n uint32, t0, t1 int64, what string) bool {
		lower, upperAbsent := 0, 0
		for _, ko := range perKey {
			// surely present throughout [t0,t1]
			var P *core.OpRec
			for i := range ko.puts {
				p := &ko.puts[i]
				if p.Ret < t0 && (P == nil || p.Call > P.Call) {
					P = p
				}
			}
			if P != nil {
				ok := true
				for _, d := range ko.dels {
					if d.Ret >= P.Call && d.Call <= t1 {
						ok = false
						break
					}
				}
				if ok {
					lower++
					continue
				}
			}
			// surely absent throughout
			anyPut := false
			for _, p := range ko.puts {
				if p.Call <= t1 {
					anyPut = true
					break
				}
			}
			if !anyPut {
				upperAbsent++
				continue
			}
			for _, d := range ko.dels {
				if d.Ret >= t0 {
					continue
				}
				ok := true
				for _, p := range ko.puts {
					if p.Ret >= d.Call && p.Call <= t1 {
						ok = false
						break
					}
				}
				if ok {
					upperAbsent++
					break
				}
			}
		}
		upper := len(perKey) - upperAbsent
		c.Stat("count_calls_checked", 1)
		if int(n) < lower || int(n) > upper {
			c.Violation("count-out-of-bounds", fmt.Sprintf("%s returned %d over tickets [%d,%d]; from the recorded history at least %d keys were present throughout and at most %d keys could be present", what, n, t0, t1, lower, upper),
				map[string]interface{}{"hash_seed": seed, "fs": fsk, "config": cfg})
			return false
		}
		return true
	}
	for _, o := range all {
		if o.Kind == "count" {
			if !checkCount(o.N, o.Call, o.Ret, "a concurrent Count") {
				break
			}
		}
	}
	t := clock.Tick()
	checkCount(finalCount, t, t, "the final quiescent Count")
	if err := db.Close(); err != nil {
		c.Violation("close-error", err.Error(), nil)
	}
	if c.Case < 2 {
		var sample []string
		for i, o := range all {
			if i >= 12 {
				break
			}
			sample = append(sample, fmt.Sprintf("[%d,%d] client %d %s key=%x val=%q found=%v", o.Call, o.Ret, o.Client, o.Kind, trunc([]byte(o.Key), 8), o.Val, o.Found))
		}
		c.Sample(map[string]interface{}{"fs": fsk, "workers": nworkers, "hot_keys": nhot, "bg_worker": bg, "ops": len(all), "compactions": compactions.Load(), "history_head": sample})
	}
}

type regKeyIn struct {
	key string
	in  regIn
}
