package checks

import (
	"fmt"

	"pvh/internal/core"
)

func init() {
	core.Register(&core.Check{
		ID:    "C02",
		Level: "exploration",
		Rule: "one case = one generated program (C01's generator: engineered collisions, chains, splits, free list, rollover, compaction) " +
			"cut into sessions by clean Close/Open at PRNG positions (after fills, deletes, compactions, on an empty database); " +
			"after every restart: recovery must not run, lock file must be gone after Close, full read-back (Items/Count/Get/Has/GetAppend of all keys " +
			"incl. absent ones) and structural index walk must equal the reference, the index geometry (level, split pointer, buckets, free list) " +
			"must equal the one before Close; half of the restarts add an idle Open+Close whose segment files must stay byte-identical; " +
			"on real directories restarts alternate fs.OS <-> fs.OSMMap. evaluations = API calls compared (restarts included); " +
			"distinct_nontrivial = distinct (restart position, index shape at restart) pairs; a restart with an empty index is counted trivial.",
		Assumptions: []string{
			"reference model: Go map carried across sessions",
			"hash seed pinned by the verif hook for the first session; later sessions read it from db.pmt",
		},
		Cases: func(tier string) int {
			if tier == "thorough" {
				return 6000
			}
			return 160
		},
		Run:     runC02,
		Require: []string{"clean_restarts", "idle_cycles", "fs_switches", "restarts_with_chain", "restarts_with_free_list", "restarts_mid_level", "compactions_effective"},
	})
}

func runC02(c *core.Ctx) {
	rng := c.Rng
	seed := rng.Uint32()
	core.PinSeed(seed)
	ks := core.GenKeys(rng, seed, randKeySpec(c))
	cfg := core.RandConfig(rng)
	var fsk core.FSKind
	switch c.Case % 4 {
	case 0:
		fsk = core.FSMem
	case 1:
		fsk = core.FSCrash
	case 2:
		fsk = core.FSOS
	default:
		fsk = core.FSOSMMap
	}
	nops := 150 + rng.Intn(1200)
	ops := core.GenOps(rng, ks, core.ProgSpec{NOps: nops, CompactPct: 40, Reopen: true})
	// extra restarts: right at the start (empty database), after compactions, and at PRNG positions
	var withRestarts []core.Op
	if rng.Intn(3) == 0 {
		withRestarts = append(withRestarts, core.Op{K: core.OpReopen})
	}
	for _, op := range ops {
		withRestarts = append(withRestarts, op)
		if (op.K == core.OpCompact && rng.Intn(3) == 0) || rng.Intn(150) == 0 {
			withRestarts = append(withRestarts, core.Op{K: core.OpReopen})
		}
	}
	withRestarts = append(withRestarts, core.Op{K: core.OpReopen})
	ops = withRestarts
	env := core.NewEnv(fsk)
	defer func() { env.Cleanup() }()
	x, err := core.NewExec(c, env, cfg, ks.Keys)
	if err != nil {
		c.Violation("open-error", fmt.Sprintf("first Open failed: %v", err), nil)
		return
	}
	defer func() {
		if x.DB != nil {
			x.DB.Close()
		}
	}()
	x.AltFS = true
	x.IdleCycles = rng.Intn(2) == 0
	c.Stat("fs_"+string(fsk), 1)
	fail := func(i int, sig, detail string) {
		c.Violation(sig, detail, progData(seed, fsk, cfg, ks, ops, i+1))
	}
	var shapeBefore core.IndexShape
	x.AfterReopen = func(x *core.Exec) string {
		if d := x.Verify(); d != "" {
			return d
		}
		_, _, shape := core.CheckIndex(x.DB, x.Env, x.Ref)
		if shape != shapeBefore {
			return fmt.Sprintf("index geometry changed across clean restart: %+v -> %+v", shapeBefore, shape)
		}
		if shape.Slots == 0 {
			c.Trivial(1)
		} else {
			c.Distinct("restart", x.OpIdx, shape.Key())
		}
		if shape.MaxChain > 1 {
			c.Stat("restarts_with_chain", 1)
		}
		if shape.Free > 0 {
			c.Stat("restarts_with_free_list", 1)
		}
		if shape.Split > 0 {
			c.Stat("restarts_mid_level", 1)
		}
		if len(x.DB.VerifSegments()) > 1 {
			c.Stat("restarts_multi_segment", 1)
		}
		return ""
	}
	for i, op := range ops {
		if op.K == core.OpReopen {
			_, _, shapeBefore = core.CheckIndex(x.DB, x.Env, x.Ref)
		}
		if sig, detail := x.Do(op); sig != "" {
			fail(i, sig, detail)
			return
		}
	}
	if c.Case < 2 {
		c.Sample(map[string]interface{}{"hash_seed": seed, "fs": fsk, "config": cfg, "nkeys": len(ks.Keys),
			"nops": len(ops), "first_ops": core.OpsToStrings(ops, 30)})
	}
}
