package checks

import (
	"fmt"

	"pvh/internal/core"
)

func init() {
	core.Register(&core.Check{
		ID:    "C01",
		Level: "exploration",
		Rule: "one case = one generated program (200-2000 API calls) over a key set engineered for a pinned hash seed " +
			"(groups with identical 32-bit hash, 40-200 keys sharing the low 16/6/3 hash bits, plain, long and empty keys), " +
			"thresholds from a grid, run on Mem/CrashFS/OS/OSMMap; every call is compared with a reference map and " +
			"Count is compared after every call; every 64 calls and at the end a full read-back plus a structural walk of the index " +
			"(I1-I5) is done. evaluations = API calls compared. distinct_nontrivial = distinct (program fingerprint) + distinct index " +
			"shapes (level, split pointer, buckets, longest chain, overflow buckets, free list) seen at the walks; a program is " +
			"trivial if it never produced an overflow chain (max chain 1).",
		Assumptions: []string{
			"reference model: a Go map stepped with every call",
			"hash seed pinned through the verif hook so that engineered collisions hit; the seed itself is drawn from the case PRNG",
			"single goroutine (concurrency is C07/C10)",
		},
		Cases: func(tier string) int {
			if tier == "thorough" {
				return 20000
			}
			return 320
		},
		Run:     runC01,
		Require: []string{"seed_zero_programs", "op_put", "op_del", "op_compact", "programs_with_chain", "splits_seen", "free_list_seen", "compactions_effective"},
	})
}

func pickFS(c *core.Ctx) core.FSKind {
	switch {
	case c.Case%11 == 10:
		return core.FSOSMMap
	case c.Case%7 == 6:
		return core.FSOS
	case c.Case%5 == 4:
		return core.FSCrash
	}
	return core.FSMem
}

func randKeySpec(c *core.Ctx) core.KeySpec {
	rng := c.Rng
	spec := core.KeySpec{
		SameHashGroups: rng.Intn(4),
		SameHashSize:   3 + rng.Intn(6),
		Plain:          20 + rng.Intn(300),
		LongKeys:       rng.Intn(3),
	}
	switch rng.Intn(4) {
	case 0:
		spec.Chain16 = 40 + rng.Intn(160)
	case 1:
		spec.Chain16 = 35 + rng.Intn(40)
		spec.Chain6 = 40 + rng.Intn(100)
	case 2:
		spec.Chain3 = 60 + rng.Intn(140)
		spec.Chain16 = 33 + rng.Intn(10)
	case 3:
		spec.Chain6 = 70 + rng.Intn(100)
	}
	return spec
}

func progData(seed uint32, fsk core.FSKind, cfg core.Config, ks *core.KeySet, ops []core.Op, upto int) map[string]interface{} {
	if upto > len(ops) {
		upto = len(ops)
	}
	from := 0
	if upto > 400 {
		from = upto - 400
	}
	return map[string]interface{}{
		"hash_seed": seed, "fs": fsk, "config": cfg, "keys": ks.HexKeys(600),
		"ops_from": from, "ops": core.OpsToStrings(ops[from:upto], 400),
	}
}

func runC01(c *core.Ctx) {
	rng := c.Rng
	seed := rng.Uint32()
	switch c.Case % 16 {
	case 9:
		seed = 0 // boundary values of the seed space are legal seeds too
		c.Stat("seed_zero_programs", 1)
	case 13:
		seed = 0xffffffff
	}
	if seed == 0 || seed == 0xffffffff {
		core.PinSeedOnce(seed)
	} else {
		core.PinSeed(seed)
	}
	ks := core.GenKeys(rng, seed, randKeySpec(c))
	cfg := core.RandConfig(rng)
	fsk := pickFS(c)
	nops := 200 + rng.Intn(1800)
	ops := core.GenOps(rng, ks, core.ProgSpec{NOps: nops, CompactPct: 40, Reopen: c.Case%16 == 9 || c.Case%16 == 13})
	env := core.NewEnv(fsk)
	defer env.Cleanup()
	x, err := core.NewExec(c, env, cfg, ks.Keys)
	if err != nil {
		c.Violation("open-error", fmt.Sprintf("first Open failed: %v", err), nil)
		return
	}
	defer func() { x.DB.Close() }()
	c.Stat("fs_"+string(fsk), 1)
	lastVerify := 0
	fail := func(i int, sig, detail string) {
		c.Violation(sig, detail, progData(seed, fsk, cfg, ks, ops, i+1))
	}
	for i, op := range ops {
		if sig, detail := x.Do(op); sig != "" {
			fail(i, sig, detail)
			return
		}
		if i-lastVerify >= 64 {
			lastVerify = i
			if sig, detail := x.Do(core.Op{K: core.OpVerify}); sig != "" {
				fail(i, sig, detail)
				return
			}
		}
	}
	if sig, detail := x.Do(core.Op{K: core.OpVerify}); sig != "" {
		fail(len(ops)-1, sig, detail)
		return
	}
	noteShapes(c, x)
	c.Distinct("prog", seed, len(ops), len(ks.Keys), cfg, fsk)
	if c.Case < 2 {
		c.Sample(map[string]interface{}{"hash_seed": seed, "fs": fsk, "config": cfg, "nkeys": len(ks.Keys),
			"first_keys": ks.HexKeys(6), "first_ops": core.OpsToStrings(ops, 25), "nops": len(ops)})
	}
}

// noteShapes turns the index shapes seen by an executor into coverage counters.
func noteShapes(c *core.Ctx, x *core.Exec) {
	maxChain, levels, free := 0, map[string]bool{}, false
	for s := range x.Shapes {
		var l, sp, b, ch, o, f int
		fmt.Sscanf(s, "L%d/S%d/B%d/C%d/O%d/F%d", &l, &sp, &b, &ch, &o, &f)
		if ch > maxChain {
			maxChain = ch
		}
		levels[fmt.Sprint(l)] = true
		if f > 0 {
			free = true
		}
	}
	if maxChain > 1 {
		c.Stat("programs_with_chain", 1)
	} else {
		c.Trivial(1)
	}
	if len(levels) > 1 || len(x.Shapes) > 1 {
		c.Stat("splits_seen", 1)
	}
	if free {
		c.Stat("free_list_seen", 1)
	}
}
