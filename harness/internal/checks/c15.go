package checks

import (
	"fmt"
	"os"
	"path/filepath"
	"runtime"
	"strings"

	"pvh/internal/core"
	"pvh/internal/decoder"
	"pvh/internal/keyeng"
)

func init() {
	core.Register(&core.Check{
		ID:    "C15",
		Level: "exploration",
		Rule: "one case = one steady-state run: a fixed live key set is overwritten/deleted/re-put for 40-70 cycles, Compact after every cycle, every 3rd cycle a " +
			"clean Close+Open, on Mem/CrashFS/OS/OSMMap in rotation with thresholds from a grid (incl. the repository tests' values). After every Compact that " +
			"returned nil: every segment listed before and gone afterwards must have neither its .psg nor its .psg.pmt file left; every file in the directory " +
			"must be a live segment, a live segment's .pmt, main.pix, overflow.pix, index.pmt, db.pmt or lock; Sync, Put, Delete, Backup (every 7th cycle) and " +
			"later Close must succeed, also when compaction removed every segment (a delete-everything cycle is forced). Right after every Compact no segment of at least the minimum size may consist of dead records (measured by the " +
			"harness from the files and the index) to more than twice the fragmentation threshold + 5 points. At quiescent points: file count <= " +
			"2*live segments+5, open descriptors (/proc/self/fd after runtime.GC) <= baseline+live segments+5, database-file mappings <= live segments+4, and " +
			"the maximum directory size of the second half of the cycles <= 2*maximum of the first half + one segment. evaluations = compactions + restarts " +
			"checked; distinct_nontrivial = distinct (fs, thresholds, segments removed, live segments) observations of effective compactions.",
		Assumptions: []string{
			"/proc/self/fd and /proc/self/maps are faithful meters of descriptors and mappings of this process",
			"the growth bound is deliberately coarse (history independence), the per-file checks are the sharp ones",
		},
		Cases: func(tier string) int {
			if tier == "thorough" {
				return 3000
			}
			return 64
		},
		Run:     runC15,
		Require: []string{"compactions_effective", "segments_removed_checked", "restarts", "compacted_everything", "backups", "fd_checks", "mapping_checks", "churn_runs", "legacy_named_runs", "meta_files_existed_before_compaction", "fs_mem", "fs_crash", "fs_os", "fs_osmmap"},
	})
}

func countFDs() int {
	ents, err := os.ReadDir("/proc/self/fd")
	if err != nil {
		return -1
	}
	return len(ents)
}

func runC15(c *core.Ctx) {
	rng := c.Rng
	seed := rng.Uint32()
	core.PinSeed(seed)
	kinds := []core.FSKind{core.FSMem, core.FSCrash, core.FSOS, core.FSOSMMap}
	fsk := kinds[c.Case%4]
	grid := []core.Config{
		{MaxSeg: 1024, MinSeg: 520, Frag: 0.02},      // the repository tests' values
		{MaxSeg: 2048, MinSeg: 513, Frag: 0.1},
		{MaxSeg: 4096, MinSeg: 1024, Frag: 0.3},
		{MaxSeg: 8192, MinSeg: 2048, Frag: 0.5},
		{MaxSeg: 1024, MinSeg: 513, Frag: 0.01},
	}
	cfg := grid[(c.Case/4)%len(grid)]
	cfg.SyncWrites = c.Case%7 == 6
	env := core.NewEnv(fsk)
	defer func() { env.Cleanup() }()
	c.Stat("fs_"+string(fsk), 1)
	nkeys := 20 + rng.Intn(60)
	var keys [][]byte
	for i := 0; i < nkeys; i++ {
		keys = append(keys, []byte(fmt.Sprintf("live-%03d", i)))
	}
	runtime.GC()
	fdBase := countFDs()
	db, err := env.Open(cfg)
	if err != nil {
		c.Violation("open-error", err.Error(), nil)
		return
	}
	ref := core.State{}
	violated := false
	fail := func(sig, detail string) {
		if !violated {
			c.Violation(sig, detail+fmt.Sprintf(" (fs %s, thresholds %+v)", fsk, cfg), map[string]interface{}{"hash_seed": seed, "fs": fsk, "config": cfg})
		}
		violated = true
	}
	val := 0
	put := func(k []byte, n int) {
		val++
		v := core.MakeVal(val, n)
		if err := db.Put(k, v); err != nil {
			fail("put-error-after-compaction", "Put failed: "+err.Error())
			return
		}
		ref[string(k)] = string(v)
	}
	del := func(k []byte) {
		if err := db.Delete(k); err != nil {
			fail("delete-error-after-compaction", "Delete failed: "+err.Error())
			return
		}
		delete(ref, string(k))
	}
	if c.Case%8 == 6 {
		// a directory whose segments carry the legacy names (NNNNN.psg, no sequence id) that the library still accepts:
		// fill a few segments, close, rename segment and meta files, reopen - compaction must remove them like any other
		for i := 0; i < 3*nkeys && !violated; i++ {
			put(keys[rng.Intn(nkeys)], 40+rng.Intn(100))
		}
		if err := db.Close(); err != nil {
			fail("close-error-after-compaction", err.Error())
			return
		}
		renamed := 0
		for _, n := range env.ListNames(env.Dir) {
			var id int
			var seq uint64
			if _, err := fmt.Sscanf(n, "%05d-%d.psg", &id, &seq); err == nil && strings.HasSuffix(n, ".psg") && int(seq) == id+1 {
				legacy := fmt.Sprintf("%05d.psg", id)
				if err := env.FS.Rename(filepath.Join(env.Dir, n), filepath.Join(env.Dir, legacy)); err == nil {
					env.FS.Rename(filepath.Join(env.Dir, n+".pmt"), filepath.Join(env.Dir, legacy+".pmt"))
					renamed++
				}
			}
		}
		db, err = env.Open(cfg)
		if err != nil {
			fail("reopen-error", "opening a directory with legacy-named segments: "+err.Error())
			return
		}
		if st, derr := core.Dump(db, keys); derr != nil || !st.Equal(ref) {
			fail("readback", fmt.Sprintf("contents differ after renaming segments to their legacy names: %v %s", derr, st.Diff(ref, 3)))
			return
		}
		if renamed > 0 {
			c.Stat("legacy_named_runs", 1)
		}
	}
	cycles := 40 + rng.Intn(30)
	// "lazy" runs: every session writes and ends without compacting; compaction happens first thing in the next session
	lazy := c.Case%3 == 1
	if lazy {
		c.Stat("lazy_compaction_runs", 1)
	}
	var dirSizes []int64
	dirSize := func() int64 {
		var t int64
		for _, s := range env.List(env.Dir) {
			t += s
		}
		return t
	}
	checkFiles := func(when string) {
		segs := db.VerifSegments()
		allowed := map[string]bool{"main.pix": true, "overflow.pix": true, "index.pmt": true, "db.pmt": true, "lock": true}
		for _, s := range segs {
			allowed[s.Name] = true
			allowed[s.Name+".pmt"] = true
		}
		names := env.ListNames(env.Dir)
		for _, n := range names {
			if !allowed[n] {
				fail("stray-file", fmt.Sprintf("%s: file %s belongs to no live segment, the index, database metadata or the lock (live segments: %d)", when, n, len(segs)))
				return
			}
		}
		if len(names) > 2*len(segs)+5 {
			fail("file-count", fmt.Sprintf("%s: %d files for %d live segments", when, len(names), len(segs)))
		}
		if fsk == core.FSOS || fsk == core.FSOSMMap {
			runtime.GC()
			c.Stat("fd_checks", 1)
			if fds := countFDs(); fds > fdBase+len(segs)+5 {
				fail("fd-leak", fmt.Sprintf("%s: %d open descriptors, baseline %d, live segments %d", when, fds, fdBase, len(segs)))
			}
			if fsk == core.FSOSMMap {
				c.Stat("mapping_checks", 1)
				if m := len(dbMappings(env.Dir)); m > len(segs)+4 {
					fail("mapping-leak", fmt.Sprintf("%s: %d mappings of database files for %d live segments", when, m, len(segs)))
				}
			}
		}
	}
	// checkReclaimed: right after a Compact that returned nil (quiescent, nobody else writes) no segment may be left
	// that is far above the configured thresholds: at least minimum size and with a share of dead bytes (records no
	// index slot points at, plus delete records) of at least twice the fragmentation threshold (+5 points, capped at
	// 95%). Dead bytes are measured by the harness from the files and the index, not taken from the library's counters.
	checkReclaimed := func(cy int) {
		vi, err := db.VerifIndexDump()
		if err != nil {
			return
		}
		live := map[string]int64{} // "segid@offset"
		for _, chain := range vi.Chains {
			for _, b := range chain {
				for _, sl := range b.Slots {
					live[fmt.Sprintf("%d@%d", sl.SegmentID, sl.Offset)] = 1
				}
			}
		}
		limit := float64(2*cfg.Frag) + 0.05
		if limit > 0.95 {
			limit = 0.95
		}
		for _, sg := range db.VerifSegments() {
			d, err := env.ReadFile(filepath.Join(env.Dir, sg.Name))
			if err != nil {
				continue
			}
			recs, _, err := decoder.ValidPrefix(d)
			if err != nil {
				continue
			}
			var dead int64
			for _, r := range recs {
				if r.Delete || live[fmt.Sprintf("%d@%d", sg.ID, r.Offset)] == 0 {
					dead += r.Size
				}
			}
			c.Stat("segments_fragmentation_measured", 1)
			frag := float64(dead) / float64(len(d))
			if uint32(len(d)) >= cfg.MinSeg && frag >= limit {
				fail("dead-space-not-reclaimed", fmt.Sprintf("cycle %d: right after Compact returned nil, segment %s (%d bytes) consists to %.0f%% of dead records (fragmentation threshold %.0f%%, minimum size %d): the space of overwritten/deleted records is not reclaimed", cy, sg.Name, len(d), frag*100, cfg.Frag*100, cfg.MinSeg))
				return
			}
		}
	}
	// "churn" runs: besides the fixed live set, a constant number of keys that all fall into one bucket chain is kept
	// alive while old ones are deleted and NEW ones are inserted every cycle; the index files must not grow with history.
	churn := c.Case%5 == 2
	var churnLive [][]byte
	churnSeq := uint32(0)
	lo16 := rng.Uint32() & 0xffff
	newChurnKey := func() []byte {
		churnSeq++
		return keyeng.Key8(seed, churnSeq, lo16|rng.Uint32()<<16)
	}
	var idxSizes []int64
	maxLive := 0
	if churn {
		c.Stat("churn_runs", 1)
		for i := 0; i < 70; i++ {
			k := newChurnKey()
			churnLive = append(churnLive, k)
			put(k, 8)
		}
	}
	for cy := 0; cy < cycles && !violated; cy++ {
		if churn {
			for i := 0; i < 30 && !violated; i++ {
				j := rng.Intn(len(churnLive))
				del(churnLive[j])
				k := newChurnKey()
				churnLive[j] = k
				put(k, 8)
			}
			files := env.List(env.Dir)
			idxSizes = append(idxSizes, files["main.pix"]+files["overflow.pix"])
			if len(ref) > maxLive {
				maxLive = len(ref)
			}
			// Inserts take the first free slot of a chain, so a chain only gets another bucket when all its buckets are
			// full: the overflow file can never need more than one bucket per 31 keys that were live at the same time,
			// plus one partly filled bucket per chain (plus the header and a little slack).
			if vi, err := db.VerifIndexDump(); err == nil {
				bound := int64(512) * int64(1+(maxLive+30)/31+int(vi.NumBuckets)+2)
				if files["overflow.pix"] > bound {
					fail("index-growth", fmt.Sprintf("cycle %d: overflow.pix has %d bytes although at most %d keys were ever live at once and the index has %d buckets (bound %d): overflow buckets are allocated although earlier buckets of the chain have free slots", cy, files["overflow.pix"], maxLive, vi.NumBuckets, bound))
				}
			}
		}
		if len(ref) > maxLive {
			maxLive = len(ref)
		}
		// steady overwrite/delete workload on the same live set
		everything := cy == cycles/2 || (cy > 3 && rng.Intn(25) == 0)
		if everything {
			for _, k := range keys {
				if _, ok := ref[string(k)]; ok && !violated {
					del(k)
				}
			}
		} else {
			n := nkeys/2 + rng.Intn(nkeys)
			for i := 0; i < n && !violated; i++ {
				k := keys[rng.Intn(nkeys)]
				if rng.Intn(5) == 0 {
					del(k)
				} else {
					put(k, []int{10, 40, 100, 200}[rng.Intn(4)])
				}
			}
		}
		if violated {
			break
		}
		if ((cy%3 == 2 && rng.Intn(2) == 0) || lazy) && !everything {
			// a session that ends without compacting: the dead space it produced must be reclaimed by a later session
			if err := db.Close(); err != nil {
				fail("close-error-after-compaction", fmt.Sprintf("cycle %d: Close failed: %v", cy, err))
				return
			}
			db, err = env.Open(cfg)
			if err != nil {
				fail("reopen-error", err.Error())
				return
			}
			c.Stat("restarts", 1)
			c.Stat("sessions_without_compaction", 1)
			// the new session compacts before it writes anything: what the previous session left must be reclaimed now
		}
		before := db.VerifSegments()
		beforeFiles := env.List(env.Dir)
		cr, err := db.Compact()
		if err != nil {
			fail("compact-error", "Compact failed: "+err.Error())
			break
		}
		c.Eval(1)
		after := map[string]bool{}
		afterSegs := db.VerifSegments()
		for _, s := range afterSegs {
			after[s.Name] = true
		}
		files := env.List(env.Dir)
		removed := 0
		for _, s := range before {
			if after[s.Name] {
				continue
			}
			removed++
			c.Stat("segments_removed_checked", 1)
			if _, ok := beforeFiles[s.Name+".pmt"]; ok {
				c.Stat("meta_files_existed_before_compaction", 1)
			}
			if _, ok := files[s.Name]; ok {
				fail("segment-file-left", fmt.Sprintf("cycle %d: segment %s was compacted but its file is still in the directory", cy, s.Name))
			}
			if _, ok := files[s.Name+".pmt"]; ok {
				fail("meta-file-left", fmt.Sprintf("cycle %d: segment %s was compacted but its metadata side file %s.pmt is still in the directory", cy, s.Name, s.Name))
			}
		}
		if removed != cr.CompactedSegments {
			fail("compacted-count", fmt.Sprintf("cycle %d: Compact reported %d compacted segments, %d disappeared from the segment list", cy, cr.CompactedSegments, removed))
		}
		if cr.CompactedSegments > 0 {
			c.Stat("compactions_effective", 1)
			c.Distinct(fsk, cfg.MaxSeg, cfg.Frag, removed, len(afterSegs))
			if len(afterSegs) == 0 {
				c.Stat("compacted_everything", 1)
			}
		} else {
			c.Trivial(1)
		}
		checkFiles(fmt.Sprintf("cycle %d after Compact", cy))
		checkReclaimed(cy)
		if violated {
			break
		}
		// usability right after the compaction
		if err := db.Sync(); err != nil {
			fail("sync-error-after-compaction", fmt.Sprintf("cycle %d: Sync after Compact failed (live segments %d): %v", cy, len(afterSegs), err))
			break
		}
		if cy%7 == 3 {
			bdir := env.Sub(fmt.Sprintf("backup-%d", cy))
			if err := db.Backup(bdir); err != nil {
				fail("backup-error-after-compaction", fmt.Sprintf("cycle %d: Backup after Compact failed: %v", cy, err))
				break
			}
			c.Stat("backups", 1)
			env.RemoveAllIn(bdir)
			if fsk == core.FSOS || fsk == core.FSOSMMap {
				os.RemoveAll(bdir)
			}
		}
		if everything && len(afterSegs) == 0 && cy%2 == 0 {
			// instead: two idle sessions. The first Open creates an empty segment, its Close writes that segment's side file,
			// the second Open finds the segment empty; the following cycles fill it and compact it - side file included
			// (seeded/R8-C15-m1).
			for i := 0; i < 2 && !violated; i++ {
				if err := db.Close(); err != nil {
					fail("close-error-after-compaction", fmt.Sprintf("cycle %d: Close of an emptied database failed: %v", cy, err))
					return
				}
				db, err = env.Open(cfg)
				if err != nil {
					fail("reopen-error", err.Error())
					return
				}
				c.Stat("restarts", 1)
				c.Eval(1)
			}
			c.Stat("idle_sessions_on_empty_segment", 1)
			checkFiles(fmt.Sprintf("cycle %d after two idle sessions", cy))
		} else if everything {
			// writes right after everything was removed
			put(keys[0], 10)
			del(keys[0])
			put(keys[1], 10)
		}
		if st, err := core.Dump(db, keys); err != nil {
			fail("readback", err.Error())
		} else if !st.Equal(ref) {
			fail("readback", "contents differ after compaction: "+st.Diff(ref, 3))
		}
		dirSizes = append(dirSizes, dirSize())
		if cy%3 == 2 && !violated {
			if err := db.Close(); err != nil {
				fail("close-error-after-compaction", fmt.Sprintf("cycle %d: Close failed: %v", cy, err))
				return
			}
			db, err = env.Open(cfg)
			if err != nil {
				fail("reopen-error", err.Error())
				return
			}
			c.Stat("restarts", 1)
			c.Eval(1)
			checkFiles(fmt.Sprintf("cycle %d after restart", cy))
		}
	}
	if !violated {
		half := len(dirSizes) / 2
		var m1, m2 int64
		for i, s := range dirSizes {
			if i < half && s > m1 {
				m1 = s
			}
			if i >= half && s > m2 {
				m2 = s
			}
		}
		if churn && len(idxSizes) > 4 {
			h := len(idxSizes) / 2
			var a, b int64
			for i, v := range idxSizes {
				if i < h && v > a {
					a = v
				}
				if i >= h && v > b {
					b = v
				}
			}
			c.StatMax("max_index_bytes", b)
			if b > 2*a+1024 {
				fail("index-growth", fmt.Sprintf("the index files keep growing although the number of keys is constant (keys of one bucket chain are deleted and new ones inserted): max %d bytes in the first half of the cycles, %d in the second", a, b))
			}
		}
		if m2 > 2*m1+int64(cfg.MaxSeg) {
			fail("directory-growth", fmt.Sprintf("directory size keeps growing under a steady workload: max %d bytes in the first half of the cycles, %d in the second", m1, m2))
		}
		c.StatMax("max_dir_bytes", m2)
	}
	if err := db.Close(); err != nil {
		fail("close-error-after-compaction", "final Close failed: "+err.Error())
	}
	if !violated && (fsk == core.FSOS || fsk == core.FSOSMMap) {
		runtime.GC()
		if fds := countFDs(); fds > fdBase+3 {
			fail("fd-leak", fmt.Sprintf("after Close: %d open descriptors, baseline %d", fds, fdBase))
		}
		if m := len(dbMappings(env.Dir)); m > 0 {
			fail("mapping-leak", fmt.Sprintf("after Close: %d mappings of database files remain", m))
		}
	}
	if c.Case < 2 {
		c.Sample(map[string]interface{}{"fs": fsk, "config": cfg, "cycles": cycles, "live_keys": nkeys, "dir_sizes": dirSizes})
	}
	_ = strings.TrimSpace
	_ = filepath.Base
}
