// pvh is the verification harness for pogreb: `pvh run <ID>`, `pvh child ...`, `pvh replay <ID> <file>`.
package main

import (
	"flag"
	"fmt"
	"os"
	"strconv"

	"pvh/internal/checks"
	"pvh/internal/core"
)

func main() {
	if len(os.Args) < 2 {
		fmt.Fprintln(os.Stderr, "usage: pvh run|child|replay|list ...")
		os.Exit(2)
	}
	switch os.Args[1] {
	case "list":
		for _, id := range core.IDs() {
			fmt.Println(id, core.Lookup(id).Race)
		}
	case "run":
		fl := flag.NewFlagSet("run", flag.ExitOnError)
		tier := fl.String("tier", "quick", "")
		seed := fl.Int64("seed", 1, "")
		fl.Parse(os.Args[3:])
		self, _ := os.Executable()
		os.Exit(core.ParentMain(os.Args[2], *tier, *seed, self))
	case "child":
		fl := flag.NewFlagSet("child", flag.ExitOnError)
		tier := fl.String("tier", "quick", "")
		seed := fl.Int64("seed", 1, "")
		shard := fl.Int("shard", 0, "")
		of := fl.Int("of", 1, "")
		out := fl.String("out", "", "")
		mode := fl.String("mode", "all", "")
		fl.Parse(os.Args[3:])
		os.Exit(core.ChildMain(os.Args[2], *tier, *seed, *shard, *of, *out, *mode))
	case "replay":
		os.Exit(core.ReplayMain(os.Args[2], os.Args[3]))
	case "gengolden":
		// pvh gengolden <dir> <version label>: writes the golden corpus with the pogreb version linked in
		if err := checks.GenGolden(os.Args[2], os.Args[3]); err != nil {
			fmt.Fprintln(os.Stderr, err)
			os.Exit(1)
		}
	case "case":
		// pvh case <ID> <tier> <seed> <idx>: run one case in-process (debugging aid)
		seed, _ := strconv.ParseInt(os.Args[4], 10, 64)
		idx, _ := strconv.Atoi(os.Args[5])
		res := core.RunCase(core.Lookup(os.Args[2]), os.Args[3], seed, idx, true)
		fmt.Printf("%+v\n", res)
	default:
		fmt.Fprintln(os.Stderr, "unknown command")
		os.Exit(2)
	}
}
