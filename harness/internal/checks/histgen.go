package checks

import (
	"fmt"
	"math/rand"

	"pvh/internal/core"
	"pvh/internal/crashfs"
)

// histParams tunes the generated single-goroutine histories used by the crash / power-loss checks.
type histParams struct {
	NOps       int
	SyncWrites bool
	Reopen     bool // include clean Close+Open
	Writers    bool // put writers into compaction windows
	LiveCheck  bool
	SyncPct    int
	CompactPct int
	// Scenarios injects compaction-specific phases (delete everything, overwrite everything, delete keys whose
	// records live in the oldest segment) followed by Compact.
	Scenarios bool
	// WindowBudget is the number of operations slipped into the windows of one compaction.
	WindowBudget int
	// FaultySyncPct: share (percent) of explicit Sync calls whose fsync is made to fail (requires core.HBFaults);
	// the failed Sync must return an error, and only a later successful Sync counts.
	FaultySyncPct int
	// FaultyWritePct: share (percent) of top-level Put/Delete calls whose next segment-file write is made to fail,
	// as a whole or after a prefix (requires core.HBFaults). The call may then return an error; what it did to its
	// own key is undetermined (before or after) until an acknowledged call settles the key, every other key and every
	// later acknowledged call are judged as usual.
	FaultyWritePct int
	// PartialWrites lets half of the failing writes pass a prefix through first (exploration only, not used by any
	// registered check: see DESIGN.md section 6, "partial writes").
	PartialWrites bool
	// HeaderWriteFaults lets the failing write be the header write of a segment being created (exploration only).
	HeaderWriteFaults bool
	// Classify is called before a window write with the key about to be written.
	Classify func(hb *core.HB, key []byte)
}

var crashValueSizes = []int{0, 1, 10, 10, 20, 100, 100, 300, 300, 700, 1300}

// smallCrashConfig draws thresholds that give a rollover every few puts and real compactions.
func smallCrashConfig(rng *rand.Rand, syncWrites bool) core.Config {
	return core.Config{
		MaxSeg:     []uint32{1024, 2048, 2048, 4096}[rng.Intn(4)],
		MinSeg:     []uint32{513, 600, 900}[rng.Intn(3)],
		Frag:       []float32{0.05, 0.15, 0.3}[rng.Intn(3)],
		SyncWrites: syncWrites,
	}
}

// crashKeys builds a small key set: one overflow chain (>31 keys in a bucket), identical-hash groups, plain keys.
func crashKeys(rng *rand.Rand, seed uint32) *core.KeySet {
	spec := core.KeySpec{SameHashGroups: 1, SameHashSize: 3, Plain: 6 + rng.Intn(10)}
	switch rng.Intn(4) {
	case 0, 1:
		spec.Chain16 = 34 + rng.Intn(8) // one bucket chain with an overflow bucket
	case 2:
		spec.Chain16 = 66 + rng.Intn(6) // two overflow buckets
		spec.Plain = 4
	default:
		spec.Chain3 = 40 + rng.Intn(20)
	}
	return core.GenKeys(rng, seed, spec)
}

// windowWriter returns an InWindow callback that slips 0-2 writes into compaction windows, choosing keys
// among those with live records (so that records not yet reached / already promoted get overwritten or
// deleted) and absent keys.
func windowWriter(hb *core.HB, rng *rand.Rand, ks *core.KeySet, valIdx *int, maxPerCompaction int, classify func(hb *core.HB, key []byte)) func(string) {
	budget := 0
	last := ""
	return func(point string) {
		if point == "compact:picked" {
			budget = maxPerCompaction
			if rng.Intn(4) == 0 {
				budget = 0 // an undisturbed compaction now and then (e.g. one that removes every segment)
			}
		}
		if budget <= 0 || hb.Failed != "" {
			return
		}
		// be dense at the beginning of a compaction, sparse later
		if point == "compact:record" && rng.Intn(5) >= 2 {
			return
		}
		n := 1 + rng.Intn(2)
		if point == "compact:picked" || point == "compact:segment" {
			// between the pick and the first record: a burst that prefers deleting live keys (their put record may
			// live in an older segment that was not picked, their delete record goes into the current one)
			n = 2 + rng.Intn(3)
		}
		for i := 0; i < n && budget > 0; i++ {
			budget--
			key := ks.Keys[rng.Intn(len(ks.Keys))]
			*valIdx++
			op := rng.Intn(10)
			if point == "compact:picked" || point == "compact:segment" {
				if rng.Intn(10) < 7 {
					op = 5 // delete
					for try := 0; try < 8; try++ {
						if _, live := hb.Ref[string(key)]; live {
							break
						}
						key = ks.Keys[rng.Intn(len(ks.Keys))]
					}
				}
			}
			if op < 8 && classify != nil {
				classify(hb, key)
			}
			switch op {
			case 0, 1, 2, 3, 4:
				hb.Put(key, core.MakeVal(*valIdx, crashValueSizes[rng.Intn(len(crashValueSizes))]))
				hb.C.Stat("window_puts", 1)
			case 5, 6, 7:
				hb.Delete(key)
				hb.C.Stat("window_deletes", 1)
			case 8:
				hb.Compact() // nested: must be refused
				hb.C.Stat("window_nested_compact", 1)
			default:
				// read-back inside the window
				st, err := core.Dump(hb.DB, ks.Keys)
				if err != nil {
					hb.Failed = "read-back inside compaction window: " + err.Error()
				} else if !st.Equal(hb.Ref) {
					hb.Failed = "read-back inside compaction window differs: " + st.Diff(hb.Ref, 4)
				}
				hb.C.Stat("window_readbacks", 1)
			}
		}
		last = point
		_ = last
	}
}

// genHistory drives a fresh (or base-image) database through a generated history.
func genHistory(c *core.Ctx, rng *rand.Rand, base crashfs.Image, admissible []core.State, cfg core.Config, ks *core.KeySet, p histParams, valIdx *int) (*core.HB, error) {
	hb, err := core.NewHB(c, base, cfg, ks.Keys, admissible)
	if err != nil {
		return nil, err
	}
	hb.LiveCheck = p.LiveCheck
	if !p.HeaderWriteFaults {
		hb.FailWriteMinOff = 512
	}
	if p.Writers {
		budget := p.WindowBudget
		if budget == 0 {
			budget = 6
		}
		hb.InWindow = windowWriter(hb, rng, ks, valIdx, budget, p.Classify)
	}
	bigVal := int(cfg.MaxSeg) + 100 + rng.Intn(300) // a record larger than a whole segment
	for i := 0; i < p.NOps && hb.Failed == "" && !hb.Stopped; i++ {
		key := ks.Keys[rng.Intn(len(ks.Keys))]
		r := rng.Intn(100)
		*valIdx++
		if p.Scenarios && rng.Intn(40) == 0 {
			switch rng.Intn(3) {
			case 0: // delete everything, then compact (may remove every segment)
				for _, k := range ks.Keys {
					if _, ok := hb.Ref[string(k)]; ok && hb.Failed == "" {
						hb.Delete(k)
					}
				}
				c.Stat("scenario_delete_all", 1)
			case 1: // overwrite everything: old segments become fully dead
				for _, k := range ks.Keys {
					if _, ok := hb.Ref[string(k)]; ok && hb.Failed == "" {
						*valIdx++
						hb.Put(k, core.MakeVal(*valIdx, 10+rng.Intn(90)))
					}
				}
				c.Stat("scenario_overwrite_all", 1)
			default: // delete a third of the live keys: delete markers land in the newest segment
				for _, k := range ks.Keys {
					if _, ok := hb.Ref[string(k)]; ok && rng.Intn(3) == 0 && hb.Failed == "" {
						hb.Delete(k)
					}
				}
				c.Stat("scenario_delete_third", 1)
			}
			if hb.Failed == "" {
				hb.Compact()
			}
			continue
		}
		switch {
		case r < 50:
			vl := crashValueSizes[rng.Intn(len(crashValueSizes))]
			if rng.Intn(60) == 0 {
				vl = bigVal
				c.Stat("oversize_records", 1)
			}
			if p.FaultyWritePct > 0 && hb.Faults != nil && rng.Intn(100) < p.FaultyWritePct {
				hb.PutFailing(key, core.MakeVal(*valIdx, vl), p.PartialWrites && rng.Intn(2) == 0)
			} else {
				hb.Put(key, core.MakeVal(*valIdx, vl))
			}
		case r < 75:
			if p.FaultyWritePct > 0 && hb.Faults != nil && rng.Intn(100) < p.FaultyWritePct {
				hb.DeleteFailing(key, p.PartialWrites && rng.Intn(2) == 0)
			} else {
				hb.Delete(key)
			}
		case r < 75+p.CompactPct:
			hb.Compact()
		case r < 75+p.CompactPct+p.SyncPct:
			if p.FaultySyncPct > 0 && hb.Faults != nil && !cfg.SyncWrites && rng.Intn(100) < p.FaultySyncPct {
				hb.SyncFailing()
				c.Stat("syncs_with_failing_fsync", 1)
				if rng.Intn(2) == 0 && hb.Failed == "" {
					hb.Sync() // retried without any write in between
					c.Stat("sync_retries_after_failure", 1)
				}
			} else {
				hb.Sync()
			}
		default:
			if p.Reopen && rng.Intn(2) == 0 {
				hb.Close()
				if hb.Failed == "" {
					hb.Open()
				}
			} else {
				hb.Put(key, core.MakeVal(*valIdx, 10))
			}
		}
	}
	if hb.Failed != "" {
		return hb, fmt.Errorf("%s", hb.Failed)
	}
	return hb, nil
}

// histData renders a history for replay files.
func histData(h *core.History, upto int) []string {
	var out []string
	from := 0
	if upto > 120 {
		from = upto - 120
	}
	for i := from; i <= upto && i < len(h.Iv); i++ {
		iv := h.Iv[i]
		out = append(out, fmt.Sprintf("#%d %s fs[%d,%d)", i, iv.Desc, iv.Start, iv.End))
	}
	return out
}

func fsOpDesc(op crashfs.Op) string {
	switch op.Kind {
	case crashfs.OpWrite:
		return fmt.Sprintf("write %s off=%d len=%d", op.Name, op.Off, len(op.Data))
	case crashfs.OpTruncate:
		return fmt.Sprintf("truncate %s size=%d", op.Name, op.Size)
	case crashfs.OpRename:
		return fmt.Sprintf("rename %s -> %s", op.Name, op.Name2)
	}
	return fmt.Sprintf("%s %s", op.Kind, op.Name)
}
