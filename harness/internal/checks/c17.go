package checks

import (
	"fmt"
	"hash/fnv"
	"os"
	"path/filepath"
	"sort"
	"strings"

	"github.com/akrylysov/pogreb"

	"pvh/internal/core"
)

func init() {
	core.Register(&core.Check{
		ID:    "C17",
		Level: "exploration",
		Rule: "one case = one seed-determined program (C01's generator: engineered collisions, splits, rollover, compaction; plus clean restarts, FileSize, and " +
			"'unclean shutdowns' = the directory copied through the FileSystem interface while open, a torn tail appended to its newest segment, the copy opened " +
			"with recovery and the program continued there) executed on fs.Mem, fs.OS, fs.OSMMap and the harness CrashFS with the same pinned hash seed. A trace of " +
			"every call's observable result (values, found flags, Count, error-or-nil, FileSize, the order and content of every Items scan) and, at every " +
			"checkpoint (after each Close, after each recovery, at the end), the names, lengths and FNV fingerprints of all segment files are recorded; the " +
			"traces of the four file systems must be identical line by line (error texts are not compared). evaluations = trace lines compared x file systems; " +
			"distinct_nontrivial = distinct (program, checkpoint kind, segment set fingerprint) checkpoints.",
		Assumptions: []string{
			"hash seed pinned, so iteration order is comparable",
			"CrashFS is part of the comparison: a divergence of CrashFS alone is reported as harness error, not as a violation",
		},
		Cases: func(tier string) int {
			if tier == "thorough" {
				return 4000
			}
			return 96
		},
		Run:     runC17,
		Require: []string{"programs", "checkpoints", "recoveries_with_truncation", "clean_restarts", "compactions_effective", "filesize_calls"},
	})
}

type c17step struct {
	op    core.Op
	extra string // "", "filesize", "unclean"
	tail  []byte
	// cutHeader: if the newest segment is header-only at that moment, cut it to 300 bytes instead of appending a tail
	cutHeader bool
	// staleBac: the copy also holds the X.bac files an earlier recovery that was interrupted left behind (a copy of every
	// non-segment file under its backup name), so that this recovery renames onto existing files
	// (seeded/R6-C17-m1: fs.Mem Rename refusing an existing destination).
	staleBac bool
}

func segFingerprint(env *core.Env) string {
	files, err := env.ReadDirFiles(env.Dir)
	if err != nil {
		return "ERR " + err.Error()
	}
	var names []string
	for n := range files {
		if strings.HasSuffix(n, ".psg") {
			names = append(names, n)
		}
	}
	sort.Strings(names)
	var sb strings.Builder
	for _, n := range names {
		h := fnv.New64a()
		h.Write(files[n])
		fmt.Fprintf(&sb, "%s:%d:%x ", n, len(files[n]), h.Sum64())
	}
	return sb.String()
}

// scribbleSafely overwrites a slice the API returned to the caller; a fault (e.g. the slice points into a
// read-only file mapping) is reported instead of killing the process.
func scribbleSafely(v []byte) (faulted bool) {
	defer func() {
		if r := recover(); r != nil {
			faulted = true
		}
	}()
	for j := range v {
		v[j] ^= 0x5A
	}
	return false
}

func fnvOf(b []byte) uint64 {
	h := fnv.New64a()
	h.Write(b)
	return h.Sum64()
}

func runProgramOn(c *core.Ctx, fsk core.FSKind, cfg core.Config, keys [][]byte, steps []c17step, big, bigEvery int) (trace []string, err error) {
	env := core.NewEnv(fsk)
	envs := []*core.Env{env}
	defer func() {
		for _, e := range envs {
			e.Cleanup()
		}
	}()
	db, err := env.Open(cfg)
	if err != nil {
		return nil, err
	}
	defer func() {
		if db != nil {
			db.Close()
		}
	}()
	add := func(format string, a ...interface{}) { trace = append(trace, fmt.Sprintf(format, a...)) }
	nput := 0
	e2s := func(err error) string {
		if err != nil {
			return "ERR"
		}
		return "ok"
	}
	for i, st := range steps {
		switch st.extra {
		case "filesize":
			n, err := db.FileSize()
			add("%d filesize %d %s", i, n, e2s(err))
			continue
		case "backup":
			// Backup with one write placed (through the verif yield hook) right after Backup captured the segment list:
			// what ends up in the backup must not depend on the file system
			wrote := false
			core.SetYield(func(d *pogreb.DB, point string) {
				if d == db && point == "backup:captured" && !wrote {
					wrote = true
					db.Put([]byte("written-during-backup"), core.MakeVal(i, 30))
				}
			})
			bdir := env.Sub(fmt.Sprintf("bk-%d", i))
			err := db.Backup(bdir)
			core.SetYield(nil)
			benv := *env
			benv.Dir = bdir
			add("%d backup %s %s", i, e2s(err), segFingerprint(&benv))
			env.RemoveAllIn(bdir)
			if fsk == core.FSOS || fsk == core.FSOSMMap {
				os.RemoveAll(bdir)
			}
			continue
		case "unclean":
			// copy the directory while open, tear the newest segment, continue on the copy
			nenv := core.NewEnv(fsk)
			envs = append(envs, nenv)
			if err := env.CopyDirTo(nenv); err != nil {
				return trace, fmt.Errorf("copy: %w", err)
			}
			segs := db.VerifSegments()
			if len(segs) > 0 && st.cutHeader {
				// a next segment whose header was only partly written (300 of 512 bytes): every file system must treat the
				// directory alike (the current code refuses to open it)
				var maxID uint16
				var maxSeq uint64
				for _, sg := range segs {
					if sg.ID > maxID {
						maxID = sg.ID
					}
					if sg.SequenceID > maxSeq {
						maxSeq = sg.SequenceID
					}
				}
				if d, err := nenv.ReadFile(filepath.Join(nenv.Dir, segs[0].Name)); err == nil && len(d) >= 512 {
					nenv.WriteFile(filepath.Join(nenv.Dir, fmt.Sprintf("%05d-%d.psg", maxID+1, maxSeq+1)), d[:300])
				}
			} else if len(segs) > 0 && len(st.tail) > 0 {
				name := filepath.Join(nenv.Dir, segs[len(segs)-1].Name)
				f, err := nenv.FS.OpenFile(name, os.O_RDWR, 0640)
				if err != nil {
					return trace, err
				}
				fi, _ := f.Stat()
				if _, err := f.WriteAt(st.tail, fi.Size()); err != nil {
					return trace, err
				}
				f.Close()
			}
			if st.staleBac {
				if files, err := nenv.ReadDirFiles(nenv.Dir); err == nil {
					for n, d := range files {
						if filepath.Ext(n) == ".psg" || n == "lock" || filepath.Ext(n) == ".bac" {
							continue
						}
						nenv.WriteFile(filepath.Join(nenv.Dir, n+".bac"), append([]byte("stale:"), d...))
						c.Stat("stale_bac_files", 1)
					}
				}
			}
			db.Close()
			env = nenv
			db, err = env.Open(cfg)
			add("%d recover %s", i, e2s(err))
			if err != nil {
				db = nil
				return trace, nil
			}
			add("%d checkpoint-recovery %s", i, segFingerprint(env))
			add("%d count %d", i, db.Count())
			continue
		}
		op := st.op
		var key []byte
		if op.Key < len(keys) {
			key = keys[op.Key]
		}
		switch op.K {
		case core.OpPut:
			vlen := op.VLen
			nput++
			if big > 0 && nput%bigEvery == bigEvery-1 {
				vlen = big // a value of a few MiB: the file grows past the pages touched so far
			}
			add("%d put %s", i, e2s(db.Put(key, core.MakeVal(i, vlen))))
			if vlen == big && big > 0 {
				// read the record back before anything else is written to its segment
				v, err := db.Get(key)
				add("%d get-after-big-put len=%d fnv=%x %s", i, len(v), fnvOf(v), e2s(err))
			}
		case core.OpDelete:
			add("%d del %s", i, e2s(db.Delete(key)))
		case core.OpGet:
			v, err := db.Get(key)
			if len(v) > 64 {
				add("%d get len=%d fnv=%x %s", i, len(v), fnvOf(v), e2s(err))
			} else {
				add("%d get %x nil=%v %s", i, v, v == nil, e2s(err))
			}
			// the returned slice is the caller's: writing into it must not show anywhere else
			if faulted := scribbleSafely(v); faulted {
				add("%d get-result-not-writable", i)
			}
		case core.OpGetAppend:
			v, err := db.GetAppend(key, []byte("p"))
			add("%d getappend %x nil=%v %s", i, v, v == nil, e2s(err))
		case core.OpHas:
			h, err := db.Has(key)
			add("%d has %v %s", i, h, e2s(err))
		case core.OpCount:
			add("%d count %d", i, db.Count())
		case core.OpItems:
			it := db.Items()
			h := fnv.New64a()
			n := 0
			for {
				k, v, err := it.Next()
				if err == pogreb.ErrIterationDone {
					break
				}
				if err != nil {
					add("%d items ERR after %d", i, n)
					break
				}
				fmt.Fprintf(h, "%x=%x;", k, v)
				n++
			}
			add("%d items n=%d order=%x", i, n, h.Sum64())
		case core.OpSync:
			add("%d sync %s", i, e2s(db.Sync()))
		case core.OpCompact:
			cr, err := db.Compact()
			add("%d compact %+v %s", i, cr, e2s(err))
		case core.OpReopen:
			err := db.Close()
			add("%d close %s", i, e2s(err))
			add("%d checkpoint-close %s", i, segFingerprint(env))
			db, err = env.Open(cfg)
			add("%d open %s", i, e2s(err))
			if err != nil {
				db = nil
				return trace, nil
			}
			add("%d count %d", i, db.Count())
		}
	}
	err = db.Close()
	db = nil
	add("final close %s", e2s(err))
	add("checkpoint-final %s", segFingerprint(env))
	return trace, nil
}

// runC17Huge drives a segment past the 1 GiB initial mapping of fs.OSMMap (three 400 MiB values, then small ones),
// so that the mapping has to be re-established, and compares every result and the segment bytes with fs.OS.
func runC17Huge(c *core.Ctx) {
	core.PinSeed(12345)
	type res struct {
		lines []string
	}
	run := func(fsk core.FSKind) ([]string, error) {
		env := core.NewEnvIn(fsk, core.DiskScratch())
		defer env.Cleanup()
		cfg := core.Config{}
		db, err := env.Open(cfg)
		if err != nil {
			return nil, err
		}
		var lines []string
		add := func(f string, a ...interface{}) { lines = append(lines, fmt.Sprintf(f, a...)) }
		big := make([]byte, 400<<20)
		for i := 0; i < 3; i++ {
			for j := 0; j < len(big); j += 4096 {
				big[j] = byte(i + j>>12)
			}
			err := db.Put([]byte(fmt.Sprintf("huge-%d", i)), big)
			add("put huge-%d err=%v", i, err != nil)
			// read back before the next write: the record lies beyond the previous mapping
			v, err := db.Get([]byte(fmt.Sprintf("huge-%d", i)))
			add("get huge-%d len=%d fnv=%x err=%v", i, len(v), fnvOf(v), err != nil)
		}
		for i := 0; i < 50; i++ {
			err := db.Put([]byte(fmt.Sprintf("small-%d", i)), core.MakeVal(i, 100))
			add("put small-%d err=%v", i, err != nil)
		}
		for i := 0; i < 3; i++ {
			v, err := db.Get([]byte(fmt.Sprintf("huge-%d", i)))
			add("get huge-%d len=%d fnv=%x err=%v", i, len(v), fnvOf(v), err != nil)
		}
		add("count %d", db.Count())
		for _, sg := range db.VerifSegments() {
			add("segment %s size=%d", sg.Name, sg.Size)
		}
		add("close err=%v", db.Close() != nil)
		db, err = env.Open(cfg)
		if err != nil {
			add("reopen failed")
			return lines, nil
		}
		for i := 0; i < 3; i++ {
			v, err := db.Get([]byte(fmt.Sprintf("huge-%d", i)))
			add("get-after-restart huge-%d len=%d fnv=%x err=%v", i, len(v), fnvOf(v), err != nil)
		}
		v, err := db.Get([]byte("small-49"))
		add("get small-49 %x err=%v", v, err != nil)
		add("close err=%v", db.Close() != nil)
		return lines, nil
	}
	a, err := run(core.FSOS)
	if err != nil {
		c.Violation("setup-error", err.Error(), nil)
		return
	}
	b, err := run(core.FSOSMMap)
	if err != nil {
		c.Violation("setup-error", err.Error(), nil)
		return
	}
	c.Stat("programs", 1)
	c.Stat("huge_segment_programs", 1)
	c.Eval(int64(len(a) + len(b)))
	c.Distinct("huge", len(a))
	for i := 0; i < len(a) || i < len(b); i++ {
		var x, y string
		if i < len(a) {
			x = a[i]
		}
		if i < len(b) {
			y = b[i]
		}
		if x != y {
			c.Violation("fs-divergence/osmmap/huge", fmt.Sprintf("segment growing past the 1 GiB initial mapping: line %d differs: fs.OS %q vs fs.OSMMap %q", i, x, y), map[string]interface{}{"trace_os": a, "trace_osmmap": b})
			return
		}
	}
	for _, l := range a {
		if strings.Contains(l, "err=true") || strings.Contains(l, "failed") {
			c.Violation("huge-op-error", "an operation failed on both file systems: "+l, map[string]interface{}{"trace_os": a})
			return
		}
	}
	c.Sample(map[string]interface{}{"kind": "huge", "trace": a[:8]})
}

func runC17(c *core.Ctx) {
	if c.Thorough() && c.Case == 0 {
		runC17Huge(c)
		return
	}
	rng := c.Rng
	seed := rng.Uint32()
	core.PinSeed(seed)
	ks := core.GenKeys(rng, seed, core.KeySpec{SameHashGroups: 1, SameHashSize: 3, Chain16: 34 + rng.Intn(30), Chain3: rng.Intn(40), Plain: 20 + rng.Intn(120)})
	cfg := core.RandConfig(rng)
	ops := core.GenOps(rng, ks, core.ProgSpec{NOps: 150 + rng.Intn(600), CompactPct: 50, Reopen: true})
	var steps []c17step
	for _, op := range ops {
		steps = append(steps, c17step{op: op})
		switch rng.Intn(120) {
		case 0, 1:
			steps = append(steps, c17step{extra: "filesize"})
		case 2:
			var tail []byte
			switch rng.Intn(4) {
			case 0:
				tail = make([]byte, 1+rng.Intn(9))
			case 1:
				rec := encodeRecord([]byte("torn"), core.MakeVal(5, 40+rng.Intn(600)), false)
				tail = rec[:1+rng.Intn(len(rec)-1)]
			case 2:
				tail = make([]byte, 1+rng.Intn(300))
				rng.Read(tail)
			}
			steps = append(steps, c17step{extra: "unclean", tail: tail, cutHeader: rng.Intn(6) == 0, staleBac: len(steps)%3 == 0})
		case 3:
			steps = append(steps, c17step{extra: "backup"})
		}
	}
	big := 0
	if c.Case%8 == 5 {
		big = 2<<20 + rng.Intn(2<<20)
		cfg.MaxSeg = 0
		c.Stat("programs_with_multi_MiB_values", 1)
	}
	kinds := []core.FSKind{core.FSOS, core.FSOSMMap, core.FSMem, core.FSCrash}
	traces := map[core.FSKind][]string{}
	for _, k := range kinds {
		tr, err := runProgramOn(c, k, cfg, ks.Keys, steps, big, 60)
		if err != nil {
			c.Violation("setup-error", fmt.Sprintf("program could not run on %s: %v", k, err), nil)
			return
		}
		traces[k] = tr
	}
	base := traces[core.FSOS]
	c.Stat("programs", 1)
	for _, l := range base {
		switch {
		case strings.Contains(l, "checkpoint-"):
			c.Stat("checkpoints", 1)
			c.Distinct(seed, l)
		case strings.Contains(l, " recover ok"):
			c.Stat("recoveries", 1)
		case strings.Contains(l, " open ok"):
			c.Stat("clean_restarts", 1)
		case strings.Contains(l, " backup ok"):
			c.Stat("backups_with_write_in_window", 1)
		case strings.Contains(l, "filesize"):
			c.Stat("filesize_calls", 1)
		case strings.Contains(l, "compact {CompactedSegments:") && !strings.Contains(l, "CompactedSegments:0"):
			c.Stat("compactions_effective", 1)
		}
	}
	// truncating recoveries: steps with a non-empty tail
	for _, st := range steps {
		if st.extra == "unclean" && len(st.tail) > 0 {
			c.Stat("recoveries_with_truncation", 1)
		}
	}
	for _, k := range kinds[1:] {
		tr := traces[k]
		c.Eval(int64(len(tr)))
		n := len(tr)
		if len(base) < n {
			n = len(base)
		}
		diff := -1
		for i := 0; i < n; i++ {
			if tr[i] != base[i] {
				diff = i
				break
			}
		}
		if diff < 0 && len(tr) != len(base) {
			diff = n
		}
		if diff < 0 {
			continue
		}
		get := func(t []string, i int) string {
			if i < len(t) {
				s := t[i]
				if len(s) > 300 {
					s = s[:300] + "..."
				}
				return s
			}
			return "<trace ended>"
		}
		detail := fmt.Sprintf("first divergence at trace line %d: fs.OS: %q  vs %s: %q", diff, get(base, diff), k, get(tr, diff))
		if k == core.FSCrash {
			// the harness file system disagrees with all real ones? then it is a harness problem
			if len(traces[core.FSMem]) > diff && len(traces[core.FSOSMMap]) > diff && traces[core.FSMem][diff] == base[diff] && traces[core.FSOSMMap][diff] == base[diff] {
				c.Inconclusive("CrashFS diverges from fs.OS/fs.OSMMap/fs.Mem (harness file system): %s", detail)
				continue
			}
		}
		from := diff - 6
		if from < 0 {
			from = 0
		}
		var stepDescs []string
		for i := 0; i < len(steps) && i < 400; i++ {
			if steps[i].extra != "" {
				stepDescs = append(stepDescs, fmt.Sprintf("%d %s tail=%x", i, steps[i].extra, steps[i].tail))
			} else {
				stepDescs = append(stepDescs, fmt.Sprintf("%d %v", i, steps[i].op))
			}
		}
		kindSig := strings.Fields(get(base, diff) + " x x")[1]
		c.Violation(fmt.Sprintf("fs-divergence/%s/%s", k, kindSig), detail, map[string]interface{}{"hash_seed": seed, "config": cfg, "keys": ks.HexKeys(300),
			"trace_os": base[from:min(diff+2, len(base))], "trace_other": tr[from:min(diff+2, len(tr))], "steps": stepDescs})
		return
	}
	if c.Case < 2 {
		c.Sample(map[string]interface{}{"hash_seed": seed, "config": cfg, "steps": len(steps), "trace_lines": len(base), "trace_head": base[:min(12, len(base))]})
	}
}

func min(a, b int) int {
	if a < b {
		return a
	}
	return b
}
