package core

import (
	"fmt"
	"os"
	"path/filepath"
	"regexp"
	"sort"
	"strings"
)

// RaceReport is one "WARNING: DATA RACE" block of a race detector log.
type RaceReport struct {
	Text      string
	Entries   [2]string // outermost library function of each of the two accesses ("" if none)
	Inner     [2]string // innermost library function of each access
	HasPogreb bool
}

var accessHdr = regexp.MustCompile(`(?mi)^(previous )?(atomic )?(write|read) (at|of) `)

// ParseRaceLogs reads all race logs written by one child (GORACE log_path=<work>/race-<shard>).
func ParseRaceLogs(work string, shard int) []RaceReport {
	matches, _ := filepath.Glob(filepath.Join(work, fmt.Sprintf("race-%d.*", shard)))
	var out []RaceReport
	for _, m := range matches {
		b, err := os.ReadFile(m)
		if err != nil {
			continue
		}
		for _, blk := range strings.Split(string(b), "==================") {
			if !strings.Contains(blk, "WARNING: DATA RACE") {
				continue
			}
			r := RaceReport{Text: blk}
			// the two access stacks: from each access header to the next blank line
			locs := accessHdr.FindAllStringIndex(blk, -1)
			for i, loc := range locs {
				if i >= 2 {
					break
				}
				end := len(blk)
				if j := strings.Index(blk[loc[0]:], "\n\n"); j >= 0 {
					end = loc[0] + j
				}
				stack := blk[loc[0]:end]
				var funcs []string
				for _, line := range strings.Split(stack, "\n") {
					line = strings.TrimSpace(line)
					if strings.HasPrefix(line, "github.com/akrylysov/pogreb") {
						if k := strings.LastIndex(line, "("); k > 0 {
							line = line[:k]
						}
						funcs = append(funcs, strings.TrimPrefix(line, "github.com/akrylysov/"))
					}
				}
				if len(funcs) > 0 {
					r.HasPogreb = true
					r.Inner[i] = funcs[0]
					// outermost that is not the verif hook plumbing
					r.Entries[i] = funcs[len(funcs)-1]
				}
			}
			out = append(out, r)
		}
	}
	return out
}

// Signature identifies a race by the unordered pair of outermost library entry points.
func (r RaceReport) Signature() string {
	e := []string{r.Entries[0], r.Entries[1]}
	sort.Strings(e)
	return "race:" + e[0] + "|" + e[1]
}
