package core

import (
	"fmt"
	"io"
	"log"
	"os"
	"path/filepath"
	"sort"
	"sync/atomic"
	"time"

	"github.com/akrylysov/pogreb"
	"github.com/akrylysov/pogreb/fs"

	"pvh/internal/crashfs"
)

func init() {
	pogreb.SetLogger(log.New(io.Discard, "", 0))
}

// FSKind names a FileSystem implementation.
type FSKind string

const (
	FSMem    FSKind = "mem"
	FSOS     FSKind = "os"
	FSOSMMap FSKind = "osmmap"
	FSCrash  FSKind = "crash"
)

var envCounter int64

// ScratchRoot is the directory under which real-file-system databases are created.
func ScratchRoot() string {
	if d := os.Getenv("PVH_SCRATCH"); d != "" {
		return d
	}
	return os.TempDir()
}

// Env is a database directory on some file system.
type Env struct {
	Kind  FSKind
	FS    fs.FileSystem // root file system handed to pogreb.Options
	Dir   string        // database path
	Crash *crashfs.FS
	tmp   string
}

// DiskScratch is a scratch directory on disk (for files too large for the tmpfs scratch).
func DiskScratch() string {
	if d := os.Getenv("PVH_SCRATCH_DISK"); d != "" {
		return d
	}
	return ScratchRoot()
}

// NewEnvIn is NewEnv with an explicit scratch root for real file systems.
func NewEnvIn(kind FSKind, root string) *Env {
	if kind != FSOS && kind != FSOSMMap {
		return NewEnv(kind)
	}
	tmp, err := os.MkdirTemp(root, "pvh-")
	if err != nil {
		panic(err)
	}
	e := &Env{Kind: kind, tmp: tmp, Dir: filepath.Join(tmp, "db")}
	if kind == FSOS {
		e.FS = fs.OS
	} else {
		e.FS = fs.OSMMap
	}
	return e
}

// NewEnv creates a fresh, empty database location.
func NewEnv(kind FSKind) *Env {
	n := atomic.AddInt64(&envCounter, 1)
	e := &Env{Kind: kind}
	switch kind {
	case FSMem:
		e.FS = fs.Mem
		e.Dir = fmt.Sprintf("pvh-mem-%d-%d/db", os.Getpid(), n)
	case FSCrash:
		e.Crash = crashfs.New()
		e.FS = e.Crash
		e.Dir = "db"
	case FSOS, FSOSMMap:
		tmp, err := os.MkdirTemp(ScratchRoot(), "pvh-")
		if err != nil {
			panic(err)
		}
		e.tmp = tmp
		e.Dir = filepath.Join(tmp, "db")
		if kind == FSOS {
			e.FS = fs.OS
		} else {
			e.FS = fs.OSMMap
		}
	default:
		panic("unknown fs kind " + string(kind))
	}
	return e
}

// CrashEnvFromImage returns a crash-FS environment holding the image.
func CrashEnvFromImage(im crashfs.Image) *Env {
	c := crashfs.FromImage(im)
	return &Env{Kind: FSCrash, FS: c, Crash: c, Dir: "db"}
}

// WithKind returns an Env for the same real directory through another OS file system (OS <-> OSMMap).
func (e *Env) WithKind(kind FSKind) *Env {
	if e.tmp == "" {
		panic("WithKind needs a real directory")
	}
	c := *e
	c.Kind = kind
	if kind == FSOS {
		c.FS = fs.OS
	} else {
		c.FS = fs.OSMMap
	}
	return &c
}

// Cleanup removes the database files.
func (e *Env) Cleanup() {
	switch e.Kind {
	case FSMem:
		e.RemoveAllIn(e.Dir)
		e.RemoveAllIn(filepath.Dir(e.Dir))
	case FSOS, FSOSMMap:
		if e.tmp != "" {
			os.RemoveAll(e.tmp)
		}
	}
}

// RemoveAllIn removes all files of a directory (Mem has no RemoveAll).
func (e *Env) RemoveAllIn(dir string) {
	ents, _ := e.FS.ReadDir(dir)
	for _, en := range ents {
		_ = e.FS.Remove(filepath.Join(dir, en.Name()))
	}
}

// Sub returns a sibling path (e.g. for backups) on the same file system.
func (e *Env) Sub(name string) string {
	return filepath.Join(filepath.Dir(e.Dir), name)
}

// List returns the base names and sizes of the files in dir.
func (e *Env) List(dir string) map[string]int64 {
	out := map[string]int64{}
	ents, err := e.FS.ReadDir(dir)
	if err != nil {
		return out
	}
	for _, en := range ents {
		var size int64 = -1
		if st, err := e.FS.Stat(filepath.Join(dir, en.Name())); err == nil {
			size = st.Size()
		}
		out[en.Name()] = size
	}
	return out
}

// ListNames returns sorted base names in dir.
func (e *Env) ListNames(dir string) []string {
	var names []string
	for n := range e.List(dir) {
		names = append(names, n)
	}
	sort.Strings(names)
	return names
}

// ReadFile reads a whole file through the FileSystem interface.
func (e *Env) ReadFile(path string) ([]byte, error) {
	st, err := e.FS.Stat(path)
	if err != nil {
		return nil, err
	}
	f, err := e.FS.OpenFile(path, os.O_RDONLY, 0)
	if err != nil {
		return nil, err
	}
	defer f.Close()
	buf := make([]byte, st.Size())
	if len(buf) == 0 {
		return buf, nil
	}
	n, err := f.ReadAt(buf, 0)
	if err != nil && err != io.EOF {
		return nil, err
	}
	return buf[:n], nil
}

// WriteFile creates/overwrites a file through the FileSystem interface.
func (e *Env) WriteFile(path string, data []byte) error {
	f, err := e.FS.OpenFile(path, os.O_CREATE|os.O_RDWR|os.O_TRUNC, 0640)
	if err != nil {
		return err
	}
	if len(data) > 0 {
		if _, err := f.WriteAt(data, 0); err != nil {
			f.Close()
			return err
		}
	}
	return f.Close()
}

// ReadDirFiles returns name -> content for all files in dir.
func (e *Env) ReadDirFiles(dir string) (map[string][]byte, error) {
	out := map[string][]byte{}
	for _, n := range e.ListNames(dir) {
		d, err := e.ReadFile(filepath.Join(dir, n))
		if err != nil {
			return nil, err
		}
		out[n] = d
	}
	return out, nil
}

// CopyDirTo copies all files of the database directory into another Env's database directory.
func (e *Env) CopyDirTo(dst *Env) error {
	files, err := e.ReadDirFiles(e.Dir)
	if err != nil {
		return err
	}
	if dst.tmp != "" {
		if err := os.MkdirAll(dst.Dir, 0755); err != nil {
			return err
		}
	}
	for n, d := range files {
		if err := dst.WriteFile(filepath.Join(dst.Dir, n), d); err != nil {
			return err
		}
	}
	return nil
}

// Config holds the database options a case runs with.
type Config struct {
	MaxSeg     uint32  `json:"max_seg"`
	MinSeg     uint32  `json:"min_seg"`
	Frag       float32 `json:"frag"`
	SyncWrites bool    `json:"sync_writes,omitempty"`
	BgSync     time.Duration `json:"bg_sync,omitempty"`
	BgCompact  time.Duration `json:"bg_compact,omitempty"`
}

// Options builds pogreb options.
func (c Config) Options(fsys fs.FileSystem) *pogreb.Options {
	o := &pogreb.Options{FileSystem: fsys}
	if c.SyncWrites {
		o.BackgroundSyncInterval = -1
	} else {
		o.BackgroundSyncInterval = c.BgSync
	}
	o.BackgroundCompactionInterval = c.BgCompact
	pogreb.VerifSetThresholds(o, c.MaxSeg, c.MinSeg, c.Frag)
	return o
}

// Open opens the database of the environment.
func (e *Env) Open(c Config) (*pogreb.DB, error) {
	return pogreb.Open(e.Dir, c.Options(e.FS))
}

// ---- hooks

var (
	pinnedSeed   atomic.Uint32
	seedPinned   atomic.Bool
	pinOnce      atomic.Bool
	recoverCount atomic.Int64
	yieldFn      atomic.Pointer[func(db *pogreb.DB, point string)]
)

func init() {
	pogreb.VerifSetHooks(
		func(s uint32) uint32 {
			if seedPinned.Load() {
				if pinOnce.Load() {
					seedPinned.Store(false)
				}
				return pinnedSeed.Load()
			}
			return s
		},
		func(db *pogreb.DB, ev string) {
			if ev == "recover" {
				recoverCount.Add(1)
			}
		},
		func(db *pogreb.DB, point string) {
			if f := yieldFn.Load(); f != nil {
				(*f)(db, point)
			}
		},
	)
}

// PinSeed pins the hash seed drawn for empty databases (also inside recovery).
func PinSeed(seed uint32) { pinnedSeed.Store(seed); pinOnce.Store(false); seedPinned.Store(true) }

// PinSeedOnce pins only the next seed that is drawn; later draws are the library's own random seeds.
func PinSeedOnce(seed uint32) { pinnedSeed.Store(seed); pinOnce.Store(true); seedPinned.Store(true) }

// UnpinSeed restores random seeds.
func UnpinSeed() { seedPinned.Store(false) }

// Recoveries returns the number of recoveries started so far in this process.
func Recoveries() int64 { return recoverCount.Load() }

// SetYield installs the callback run at pogreb's lock-free yield points (nil removes it).
func SetYield(f func(db *pogreb.DB, point string)) {
	if f == nil {
		yieldFn.Store(nil)
		return
	}
	yieldFn.Store(&f)
}
