package core

import (
	"fmt"
	"hash/fnv"
	"path/filepath"
	"sort"

	"github.com/akrylysov/pogreb"

	"pvh/internal/crashfs"
)

// Interval is a stretch of the file system call log during which one API operation (or one part of a
// compaction between two yield points) was in flight.
type Interval struct {
	Desc  string
	Kind  string // put del compact sync close open reopen
	Start int    // first logged FS call of the interval
	End   int    // one past the last
	// Adm lists the states a recovery from a process crash inside the interval may produce: the reference
	// state before and after the operation in flight (one entry if they coincide).
	Adm []State
	// SyncIdx indexes History.SyncStates: the state made durable by the last Sync (or, with sync-after-
	// every-write, the last Put/Delete) that had *returned* before this interval started. SyncAt is the
	// interval index of that sync (-1: the base image).
	SyncIdx int
	SyncAt  int
}

// WriteEv is one acknowledged-or-in-flight write to a key.
type WriteEv struct {
	Interval int
	Val      string
	Del      bool
}

// History is a recorded single-goroutine execution on a crashfs.FS.
type History struct {
	Base       crashfs.Image
	FS         *crashfs.FS
	Cfg        Config
	Keys       [][]byte
	Iv         []Interval
	Writes     map[string][]WriteEv
	SyncStates []State
	Final      State
}

// AnyState, passed as the admissible set to NewHB, accepts whatever state the Open produces and makes it
// the reference (used after a power-loss image whose admissible states are defined per key).
var AnyState = []State{nil}

// HBFaults makes NewHB put a FaultFS between the database and the CrashFS (the call log is unaffected: a failed
// call never reaches the CrashFS).
var HBFaults bool

// HB builds a History while driving the database.
type HB struct {
	H   *History
	Env *Env
	DB  *pogreb.DB
	Ref State
	C   *Ctx

	curSync   int
	curSyncAt int
	// open compaction interval (when inside Compact)
	inCompact   bool
	compactDesc string
	ivStart     int
	// InWindow is called at every compaction yield point (no lock held) and may call Put/Delete/... on hb.
	InWindow func(point string)
	// LiveCheck makes every operation be followed by a full read-back against the reference.
	LiveCheck bool
	// Failed is set when an API call returned an unexpected error or a live check failed.
	Failed string
	opN    int
	// AllowCompactError: a Compact that returns an error is not a failure of the history (fault injection).
	AllowCompactError bool
	CompactErrors     int
	// Faults is the fault injector (nil unless HBFaults was set).
	Faults *FaultFS
	// Alt is the second admissible reference while the effect of a Put/Delete that *returned an error* (injected
	// segment write fault) is undetermined: Ref is what the live read-back showed right after the failed call, Alt
	// the other of {before, after}. Later acknowledged operations are applied to both; Alt is dropped as soon as the
	// two coincide again (the key was rewritten or deleted by an acknowledged call).
	Alt State
	// FailedWriteErr is the error returned by the last call that failed through an injected segment write fault.
	FailedWriteErr error
	// Stopped is set when, after an injected write fault in the current session, a later call returned an error too:
	// a database that refuses further work after an I/O error is not judged (the history ends there, nothing after
	// the fault was acknowledged). faultInSession is reset by Open.
	Stopped        bool
	faultInSession bool
	// FailWriteMinOff restricts the injected write fault to segment writes at or beyond this offset (512: record
	// appends only, never the header of a segment being created).
	FailWriteMinOff int64
	// failWrite (set by PutFailing/DeleteFailing for one call): 1 = the next segment write fails as a whole,
	// 2 = it writes a prefix and fails.
	failWrite int
}

// SyncFailing calls db.Sync with the next fsync failing; the call must return an error and nothing counts as synced.
func (hb *HB) SyncFailing() {
	hb.Faults.FailNext("sync")
	hb.opN++
	start := hb.Env.Crash.LogLen()
	hb.Env.Crash.CurAPI = hb.opN
	hb.H.Iv = append(hb.H.Iv, Interval{Desc: "sync (fsync fails)", Kind: "sync", Start: start, Adm: hb.curAdm(), SyncIdx: hb.curSync, SyncAt: hb.curSyncAt})
	err := hb.DB.Sync()
	hb.H.Iv[len(hb.H.Iv)-1].End = hb.Env.Crash.LogLen()
	if hb.Faults.Fired == "" {
		// nothing to sync (e.g. no current segment): the fault did not fire, an ordinary successful Sync
		hb.Faults.ClearNext()
		if err == nil {
			hb.markSynced()
		}
		return
	}
	if err == nil {
		hb.fail("Sync returned nil although fsync of %s failed", hb.Faults.Fired)
	}
}

// NewHB starts a history on a crash FS holding base (nil = empty). initRef is the reference state of the
// base image if it is known; if admissible is non-empty the state observed after Open must be one of them
// and becomes the reference (used by multi-epoch chains).
func NewHB(c *Ctx, base crashfs.Image, cfg Config, keys [][]byte, admissible []State) (*HB, error) {
	var env *Env
	if base == nil {
		env = NewEnv(FSCrash)
		base = crashfs.Image{}
	} else {
		env = CrashEnvFromImage(base)
	}
	h := &History{Base: base.Clone(), FS: env.Crash, Cfg: cfg, Keys: keys, Writes: map[string][]WriteEv{}}
	hb := &HB{H: h, Env: env, C: c, Ref: State{}, curSyncAt: -1}
	if HBFaults {
		hb.Faults = NewFaultFS(env.FS)
		env.FS = hb.Faults
	}
	anyState := len(admissible) == 1 && admissible[0] == nil
	if len(admissible) == 0 {
		admissible = []State{{}}
	}
	start := env.Crash.LogLen()
	env.Crash.CurAPI = 0
	db, err := env.Open(cfg)
	if err != nil {
		return nil, fmt.Errorf("open: %w", err)
	}
	hb.DB = db
	st, err := Dump(db, keys)
	if err != nil {
		return nil, fmt.Errorf("read-back after open: %w", err)
	}
	ok := anyState
	for _, a := range admissible {
		if st.Equal(a) {
			ok = true
		}
	}
	if anyState {
		admissible = []State{st.Clone()}
	}
	if !ok {
		return nil, fmt.Errorf("state after open is not admissible: %s", st.Diff(admissible[0], 4))
	}
	if d := CheckSegmentCounters(db, env); d != "" {
		return nil, fmt.Errorf("after open: %s", d)
	}
	hb.Ref = st
	h.SyncStates = append(h.SyncStates, st.Clone())
	h.Iv = append(h.Iv, Interval{Desc: "open", Kind: "open", Start: start, End: env.Crash.LogLen(), Adm: admissible, SyncIdx: 0, SyncAt: -1})
	return hb, nil
}

func (hb *HB) fail(format string, a ...interface{}) {
	if hb.Failed == "" {
		hb.Failed = fmt.Sprintf(format, a...)
	}
}

func (hb *HB) live(desc string) {
	if !hb.LiveCheck || hb.Failed != "" || hb.DB == nil || hb.Stopped {
		return
	}
	st, err := Dump(hb.DB, hb.H.Keys)
	if err != nil {
		hb.fail("live read-back after %s: %v", desc, err)
		return
	}
	if !st.Equal(hb.Ref) {
		hb.fail("live read-back after %s differs from reference: %s", desc, st.Diff(hb.Ref, 4))
	}
}

func adm(before, after State) []State {
	if before.Equal(after) {
		return []State{after}
	}
	return []State{before, after}
}

// closeCompactPart ends the running part of a compaction interval (called before a nested operation).
func (hb *HB) closeCompactPart() {
	end := hb.Env.Crash.LogLen()
	hb.H.Iv = append(hb.H.Iv, Interval{Desc: hb.compactDesc, Kind: "compact", Start: hb.ivStart, End: end,
		Adm: hb.curAdm(), SyncIdx: hb.curSync, SyncAt: hb.curSyncAt})
	hb.ivStart = end
}

// curAdm is the admissible set of an interval that changes nothing.
func (hb *HB) curAdm() []State {
	if hb.Alt != nil {
		return []State{hb.Ref.Clone(), hb.Alt.Clone()}
	}
	return []State{hb.Ref.Clone()}
}

// record runs fn as one interval.
func (hb *HB) record(desc, kind string, fn func() error, apply func(s State)) error {
	if hb.Stopped {
		return nil
	}
	if hb.inCompact {
		hb.closeCompactPart()
	}
	hb.opN++
	start := hb.Env.Crash.LogLen()
	hb.Env.Crash.CurAPI = hb.opN
	before := hb.Ref.Clone()
	ivIdx := len(hb.H.Iv)
	// the write is "in flight" from now on: register it before calling
	after := before
	if apply != nil {
		apply(hb.Ref)
		after = hb.Ref.Clone()
	}
	admSet := adm(before, after)
	if hb.Alt != nil {
		altBefore := hb.Alt.Clone()
		if apply != nil {
			apply(hb.Alt)
		}
		admSet = append(admSet, adm(altBefore, hb.Alt.Clone())...)
		if hb.Alt.Equal(hb.Ref) {
			hb.Alt = nil
		}
	}
	hb.H.Iv = append(hb.H.Iv, Interval{Desc: desc, Kind: kind, Start: start, Adm: admSet, SyncIdx: hb.curSync, SyncAt: hb.curSyncAt})
	fw := hb.failWrite
	hb.failWrite = 0
	if fw != 0 {
		hb.Faults.FailNextWrite(".psg", fw == 2, hb.FailWriteMinOff)
	}
	err := fn()
	end := hb.Env.Crash.LogLen()
	hb.H.Iv[ivIdx].End = end
	if hb.inCompact {
		hb.ivStart = end
	}
	if fw != 0 {
		fired := hb.Faults.Fired
		hb.Faults.ClearNext()
		if fired != "" && err != nil {
			// The call failed because of the injected fault: its effect is undetermined. What a read-back shows now must
			// be the state before or after it (no other key touched); that becomes the reference, the other one stays
			// admissible for recoveries until an acknowledged call settles the key.
			if hb.C != nil {
				hb.C.Stat("failed_segment_writes", 1)
			}
			hb.H.Iv[ivIdx].Desc = desc + " (segment write fails: " + fired + ")"
			st, derr := Dump(hb.DB, hb.H.Keys)
			if derr != nil {
				hb.fail("read-back after failed %s: %v", desc, derr)
				return err
			}
			var cands []State
			cands = append(cands, admSet...)
			found := -1
			for i, a := range cands {
				if st.Equal(a) {
					found = i
					break
				}
			}
			if found < 0 {
				hb.fail("after %s returned the injected error the contents are neither those before nor those after the call: %s", desc, st.Diff(before, 4))
				return err
			}
			hb.Ref = st.Clone()
			hb.Alt = nil
			for i, a := range cands {
				if i != found && !a.Equal(st) {
					// keep one alternative (with one undetermined call at a time there are at most two distinct states)
					hb.Alt = a.Clone()
				}
			}
			hb.H.Iv[ivIdx].Adm = cands
			hb.faultInSession = true
			hb.FailedWriteErr = err
			return err
		}
	}
	if err != nil {
		if hb.faultInSession && kind != "open" {
			hb.Stopped = true
			if hb.C != nil {
				hb.C.Stat("histories_stopped_after_fault", 1)
			}
			return err
		}
		hb.fail("%s: %v", desc, err)
	}
	if kind == "open" && err == nil {
		hb.faultInSession = false
	}
	return err
}

// PutFailing is Put with the next segment write failing (partial: a prefix reaches the file first).
func (hb *HB) PutFailing(key, val []byte, partial bool) {
	if hb.Alt != nil || hb.inCompact {
		hb.Put(key, val)
		return
	}
	hb.failWrite = 1
	if partial {
		hb.failWrite = 2
	}
	hb.Put(key, val)
}

// DeleteFailing is Delete with the next segment write failing.
func (hb *HB) DeleteFailing(key []byte, partial bool) {
	if hb.Alt != nil || hb.inCompact {
		hb.Delete(key)
		return
	}
	hb.failWrite = 1
	if partial {
		hb.failWrite = 2
	}
	hb.Delete(key)
}

func (hb *HB) markSynced() {
	hb.H.SyncStates = append(hb.H.SyncStates, hb.Ref.Clone())
	hb.curSync = len(hb.H.SyncStates) - 1
	hb.curSyncAt = len(hb.H.Iv) - 1
}

// Put writes key=val.
func (hb *HB) Put(key, val []byte) {
	k, v := string(key), string(val)
	err := hb.record(fmt.Sprintf("put %s len=%d", short(k), len(v)), "put", func() error {
		return hb.DB.Put(append([]byte(nil), key...), append([]byte(nil), val...))
	}, func(s State) {
		if len(hb.H.Writes[k]) == 0 || hb.H.Writes[k][len(hb.H.Writes[k])-1].Interval != len(hb.H.Iv) {
			hb.H.Writes[k] = append(hb.H.Writes[k], WriteEv{Interval: len(hb.H.Iv), Val: v})
		}
		s[k] = v
	})
	if err == nil && hb.H.Cfg.SyncWrites {
		hb.markSynced()
	}
	hb.live("put")
}

// Delete removes key.
func (hb *HB) Delete(key []byte) {
	k := string(key)
	err := hb.record(fmt.Sprintf("del %s", short(k)), "del", func() error {
		return hb.DB.Delete(key)
	}, func(s State) {
		if len(hb.H.Writes[k]) == 0 || hb.H.Writes[k][len(hb.H.Writes[k])-1].Interval != len(hb.H.Iv) {
			hb.H.Writes[k] = append(hb.H.Writes[k], WriteEv{Interval: len(hb.H.Iv), Del: true})
		}
		delete(s, k)
	})
	if err == nil && hb.H.Cfg.SyncWrites {
		hb.markSynced()
	}
	hb.live("del")
}

// Sync calls db.Sync.
func (hb *HB) Sync() {
	if err := hb.record("sync", "sync", func() error { return hb.DB.Sync() }, nil); err == nil {
		hb.markSynced()
	}
}

// Compact runs a compaction; InWindow is invoked at every yield point.
func (hb *HB) Compact() pogreb.CompactionResult {
	if hb.Stopped {
		return pogreb.CompactionResult{}
	}
	if hb.inCompact {
		// nested: must be refused with the busy error
		_, err := hb.DB.Compact()
		if !pogreb.VerifIsBusy(err) {
			hb.fail("nested Compact did not return the busy error: %v", err)
		}
		return pogreb.CompactionResult{}
	}
	hb.opN++
	hb.Env.Crash.CurAPI = hb.opN
	hb.inCompact = true
	hb.compactDesc = fmt.Sprintf("compact#%d", hb.opN)
	hb.ivStart = hb.Env.Crash.LogLen()
	if hb.InWindow != nil {
		SetYield(func(db *pogreb.DB, point string) {
			if db != hb.DB {
				return
			}
			if hb.C != nil {
				hb.C.Stat("yield_"+point, 1)
			}
			hb.InWindow(point)
		})
	}
	cr, err := hb.DB.Compact()
	SetYield(nil)
	hb.closeCompactPart()
	hb.inCompact = false
	if err != nil {
		if hb.AllowCompactError {
			hb.CompactErrors++
		} else if hb.faultInSession {
			hb.Stopped = true
		} else {
			hb.fail("compact: %v", err)
		}
	}
	if hb.C != nil && cr.CompactedSegments > 0 {
		hb.C.Stat("compactions_effective", 1)
		hb.C.Stat("segments_compacted", int64(cr.CompactedSegments))
	}
	hb.live("compact")
	return cr
}

// Close closes the database (one interval).
func (hb *HB) Close() {
	hb.record("close", "close", func() error { return hb.DB.Close() }, nil)
	hb.DB = nil
}

// Open opens it again (one interval); recovery must not run after a clean Close.
func (hb *HB) Open() {
	rec := Recoveries()
	hb.record("open", "open", func() error {
		db, err := hb.Env.Open(hb.H.Cfg)
		if err == nil {
			hb.DB = db
		}
		return err
	}, nil)
	if Recoveries() != rec {
		hb.fail("open after clean close ran recovery")
	}
	if hb.DB != nil && hb.Failed == "" {
		if d := CheckSegmentCounters(hb.DB, hb.Env); d != "" {
			hb.fail("after a clean restart: %s", d)
		}
	}
	hb.live("open")
}

// Finish returns the history.
func (hb *HB) Finish() *History {
	hb.H.Final = hb.Ref.Clone()
	return hb.H
}

// ---- recovery of images

// RecoverImage opens the image with cfg and reads the whole state back.
func RecoverImage(im crashfs.Image, cfg Config, keys [][]byte) (State, *Env, *pogreb.DB, error) {
	env := CrashEnvFromImage(im)
	db, err := env.Open(cfg)
	if err != nil {
		return nil, env, nil, fmt.Errorf("Open failed: %w", err)
	}
	st, err := Dump(db, keys)
	if err != nil {
		return nil, env, db, err
	}
	return st, env, db, nil
}

// ImageHash fingerprints an image.
func ImageHash(im crashfs.Image) uint64 {
	h := fnv.New64a()
	for _, n := range im.Names() {
		h.Write([]byte(n))
		h.Write([]byte{0})
		d := im[n]
		var l [8]byte
		for i := 0; i < 8; i++ {
			l[i] = byte(len(d) >> (8 * i))
		}
		h.Write(l[:])
		h.Write(d)
	}
	return h.Sum64()
}

// DescribeImage lists the files of an image with sizes.
func DescribeImage(im crashfs.Image) []string {
	var out []string
	for _, n := range im.Names() {
		out = append(out, fmt.Sprintf("%s:%d", filepath.Base(n), len(im[n])))
	}
	return out
}

// InAdm reports whether st is one of the admissible states.
func InAdm(st State, adm []State) bool {
	for _, a := range adm {
		if st.Equal(a) {
			return true
		}
	}
	return false
}

// PowerAdmissible checks the per-key power-loss oracle of C06 for a crash inside interval ai: every key
// holds its value as of the last completed sync or a value written (or a deletion made) after it, up to
// and including the operation in flight. It returns "" or a description of the first offending key.
func (h *History) PowerAdmissible(st State, ai int) string {
	iv := h.Iv[ai]
	synced := h.SyncStates[iv.SyncIdx]
	keys := map[string]bool{}
	for k := range st {
		keys[k] = true
	}
	for k := range synced {
		keys[k] = true
	}
	for k := range h.Writes {
		keys[k] = true
	}
	var ks []string
	for k := range keys {
		ks = append(ks, k)
	}
	sort.Strings(ks)
	for _, k := range ks {
		got, present := st[k]
		sv, sok := synced[k]
		if present == sok && got == sv {
			continue
		}
		ok := false
		for _, w := range h.Writes[k] {
			if w.Interval > iv.SyncAt && w.Interval <= ai {
				if w.Del && !present {
					ok = true
					break
				}
				if !w.Del && present && w.Val == got {
					ok = true
					break
				}
			}
		}
		if !ok {
			g := "absent"
			if present {
				g = short(got)
			}
			s := "absent"
			if sok {
				s = short(sv)
			}
			return fmt.Sprintf("key %s = %s; value as of last completed sync: %s; it is none of the %d later writes either", short(k), g, s, len(h.Writes[k]))
		}
	}
	return ""
}

// IntervalAt returns the index of the interval that contains boundary n (the FS call n is the next to
// execute). Boundaries between intervals belong to the later interval; the final boundary to the last.
func (h *History) IntervalAt(n int) int {
	for i, iv := range h.Iv {
		if n < iv.End {
			return i
		}
	}
	return len(h.Iv) - 1
}
