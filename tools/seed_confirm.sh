#!/bin/bash
# tools/seed_confirm.sh <dir with patch.diff + demo_test.go> <scratch worktree>
# Confirms a seeded change: applies to a clean worktree at /repo's HEAD, builds, runs the repo suite (must pass),
# runs the demo with the change (must fail) and without it (must pass). Prints one summary line.
set -u
D="$1"; WT="$2"
export GOFLAGS=-mod=mod GOPROXY=off GOSUMDB=off GOTOOLCHAIN=local
cd "$WT" || exit 2
git checkout -q -- . ; git clean -fdq
git checkout -q --detach "$(git -C /repo rev-parse HEAD)" || exit 2
if ! git apply --3way "$D/patch.diff" 2>/dev/null && ! git apply "$D/patch.diff" 2>/dev/null && ! patch -p1 -s --fuzz=3 < "$D/patch.diff"; then echo "RESULT $D apply=FAIL"; git checkout -q -- .; exit 1; fi
git reset -q
git diff > "$D/patch.rebased.diff"
DEMODIR=.
if grep -q '^package fs' "$D/demo_test.go"; then DEMODIR=fs; fi
BUILD=ok; go build ./... 2>/dev/null || BUILD=FAIL
SUITE=ok; go test -vet=off -count=1 ./... > "$D/confirm_suite.txt" 2>&1 || SUITE=FAIL
cp "$D/demo_test.go" "$DEMODIR/zz_seed_demo_test.go"
TESTS=$(grep -o '^func Test[A-Za-z0-9_]*' "$D/demo_test.go" | sed 's/func //' | paste -sd'|')
WITH=pass; ( cd $DEMODIR && timeout 300 go test -vet=off -count=1 -run "^($TESTS)\$" . ) > "$D/confirm_demo_with.txt" 2>&1 || WITH=fail
git checkout -q -- . 
cp "$D/demo_test.go" "$DEMODIR/zz_seed_demo_test.go"
WITHOUT=pass; ( cd $DEMODIR && timeout 300 go test -vet=off -count=1 -run "^($TESTS)\$" . ) > "$D/confirm_demo_without.txt" 2>&1 || WITHOUT=fail
rm -f "$DEMODIR/zz_seed_demo_test.go"; git checkout -q -- .; git clean -fdq
echo "RESULT $D apply=ok build=$BUILD suite=$SUITE demo_with_change=$WITH demo_without_change=$WITHOUT tests=$TESTS"
