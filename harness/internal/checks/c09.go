package checks

import (
	"fmt"
	"path/filepath"

	"pvh/internal/core"
	"pvh/internal/crashfs"
)

func init() {
	core.Register(&core.Check{
		ID:    "C09",
		Level: "fault_enumeration",
		Rule: "one case = one generated history on CrashFS with several clean Close/Open cycles (after index growth, overflow chains, rollover, compaction, " +
			"after a recovery, on an empty database, two cycles in a row; explicit-Sync and sync-every-write modes alternate). For every Close that returned " +
			"nil, power-loss images (family of C06: minimal, maximal, single-inode loses/keeps, PRNG prefixes with tears) are materialised at the boundary " +
			"right after Close and at EVERY file-system-call boundary of the following Open; each image must open with the real Open and read back exactly " +
			"the closed contents (Items/Count/Get/Has). Sessions that only compact are included. Finally every file-system call of a Close is failed " +
			"once (fault injection): whenever that Close returns nil anyway, the power-loss images right after it must still open with the closed contents. " +
			"evaluations = images recovered (de-duplicated); distinct_nontrivial = distinct (closed-database " +
			"fingerprint, boundary inside the next Open, image) triples for non-empty databases; closes of an empty database are trivial.",
		Assumptions: []string{
			"power-loss model of the property (C06)",
			"fs.File.Sync is fsync",
		},
		Cases: func(tier string) int {
			if tier == "thorough" {
				return 2000
			}
			return 48
		},
		Run:     runC09,
		Require: []string{"closes_checked", "closes_after_recovery", "closes_multi_segment", "closes_with_chain", "closes_empty_db", "mode_syncwrites", "mode_explicit", "boundaries_inside_next_open", "compaction_only_sessions", "faulty_closes"},
	})
}

func runC09(c *core.Ctx) {
	rng := c.Rng
	seed := rng.Uint32()
	core.PinSeed(seed)
	var ks *core.KeySet
	if c.Case%3 == 0 {
		// larger key set: index growth over several levels, long chains, free list
		ks = core.GenKeys(rng, seed, core.KeySpec{SameHashGroups: 2, SameHashSize: 4, Chain16: 40 + rng.Intn(60), Chain3: 40, Plain: 60 + rng.Intn(200)})
	} else {
		ks = crashKeys(rng, seed)
	}
	syncWrites := c.Case%2 == 1
	cfg := smallCrashConfig(rng, syncWrites)
	if syncWrites {
		c.Stat("mode_syncwrites", 1)
	} else {
		c.Stat("mode_explicit", 1)
	}
	valIdx := 0
	// optionally start from an unclean image so that the first session begins with a recovery
	var base crashfs.Image
	var adm []core.State
	afterRecovery := c.Case%4 == 2
	var retryKey, retryVal []byte
	if afterRecovery {
		p0 := histParams{NOps: 30 + rng.Intn(40), LiveCheck: false, SyncPct: 5, CompactPct: 8}
		hb0, err := genHistory(c, rng, nil, nil, cfg, ks, p0, &valIdx)
		if err != nil {
			c.Violation("live-mismatch", "setup history failed: "+err.Error(), nil)
			return
		}
		base = hb0.Env.Crash.Snapshot() // process-crash image while open: lock file present
		adm = []core.State{hb0.Ref.Clone()}
		if c.Case%8 == 2 {
			// The last Put before the failure kept its length but lost its bytes (the file size reached the disk, the data
			// did not): recovery discards the record and truncates; the first call of the session retries the same Put, which
			// brings the segment back to exactly the size it had on disk, and some of these sessions Close right away
			// (seeded/R6-C09-m2: fsync skipped when the size equals the size found at open).
			retryKey = ks.Keys[rng.Intn(len(ks.Keys))]
			valIdx++
			retryVal = core.MakeVal(valIdx, []int{10, 100, 300}[rng.Intn(3)])
			before := base
			hb0.LiveCheck = false
			hb0.Put(retryKey, retryVal)
			if hb0.Failed != "" {
				c.Violation("live-mismatch", "setup history failed: "+hb0.Failed, nil)
				return
			}
			after := hb0.Env.Crash.Snapshot()
			for n, d := range after {
				if filepath.Ext(n) != ".psg" {
					continue
				}
				from := len(before[n])
				if _, ok := before[n]; !ok {
					from = 512
				}
				for i := from; i < len(d); i++ {
					d[i] = 0
				}
				if from < len(d) {
					c.Stat("sessions_retrying_a_lost_put", 1)
				}
			}
			base = after
		}
	}
	hb, err := core.NewHB(c, base, cfg, ks.Keys, adm)
	if err != nil {
		c.Violation("open-error", err.Error(), nil)
		return
	}
	hb.LiveCheck = true
	hb.InWindow = windowWriter(hb, rng, ks, &valIdx, 4, nil)
	type closeRec struct {
		closeIv, openIv int
		state           core.State
		afterRec        bool
	}
	var closes []closeRec
	doClose := func() {
		ci := len(hb.H.Iv)
		st := hb.Ref.Clone()
		shapeChain, multi := false, false
		if _, _, shape := core.CheckIndex(hb.DB, hb.Env, nil); shape.MaxChain > 1 {
			shapeChain = true
		}
		if len(hb.DB.VerifSegments()) > 1 {
			multi = true
		}
		hb.Close()
		if hb.Failed != "" {
			return
		}
		oi := len(hb.H.Iv)
		hb.Open()
		closes = append(closes, closeRec{closeIv: ci, openIv: oi, state: st, afterRec: afterRecovery && len(closes) == 0})
		c.Stat("closes_checked", 1)
		if shapeChain {
			c.Stat("closes_with_chain", 1)
		}
		if multi {
			c.Stat("closes_multi_segment", 1)
		}
		if len(st) == 0 {
			c.Stat("closes_empty_db", 1)
		}
		if afterRecovery && len(closes) == 1 {
			c.Stat("closes_after_recovery", 1)
		}
	}
	if c.Case%5 == 0 && !afterRecovery {
		doClose() // Close of an empty database
	}
	if retryKey != nil {
		hb.Put(retryKey, retryVal)
		if rng.Intn(3) != 0 && hb.Failed == "" {
			doClose()
		}
	}
	ncycles := 2 + rng.Intn(4)
	for cy := 0; cy < ncycles && hb.Failed == ""; cy++ {
		n := 10 + rng.Intn(60)
		if len(ks.Keys) > 100 {
			n += 150
		}
		for i := 0; i < n && hb.Failed == ""; i++ {
			key := ks.Keys[rng.Intn(len(ks.Keys))]
			valIdx++
			switch r := rng.Intn(100); {
			case r < 60:
				hb.Put(key, core.MakeVal(valIdx, crashValueSizes[rng.Intn(len(crashValueSizes))]))
			case r < 82:
				hb.Delete(key)
			case r < 92:
				hb.Compact()
			default:
				hb.Sync()
			}
		}
		if hb.Failed != "" {
			break
		}
		if rng.Intn(3) == 0 {
			hb.Compact() // compaction right before Close
		}
		doClose()
		if rng.Intn(4) == 0 && hb.Failed == "" {
			doClose() // two Close/Open cycles in a row (idle session)
			c.Stat("idle_sessions", 1)
		}
		if rng.Intn(3) == 0 && hb.Failed == "" {
			// a session that only compacts: the index is rewritten without any Put/Delete
			if cr := hb.Compact(); cr.CompactedSegments > 0 {
				c.Stat("compaction_only_sessions", 1)
			}
			if hb.Failed == "" {
				doClose()
			}
		}
	}
	if hb.Failed != "" {
		c.Violation("live-mismatch", "history failed before any fault was injected: "+hb.Failed,
			map[string]interface{}{"hash_seed": seed, "config": cfg, "history": histData(hb.H, len(hb.H.Iv))})
		return
	}
	h := hb.Finish()
	ops := h.FS.Log
	r := crashfs.NewPowerReplayer(h.Base, ops)
	for _, cr := range closes {
		from := h.Iv[cr.closeIv].End
		to := h.Iv[cr.openIv].End
		seen := map[uint64]bool{}
		closedFP := uint64(0)
		for n := from; n <= to; n++ {
			r.Advance(n)
			if n > from {
				c.Stat("boundaries_inside_next_open", 1)
			}
			pend := r.Pending()
			if n == from && len(pend) > 0 {
				c.Stat("closes_with_unsynced_data", 1)
			}
			emit := func(label string, keep func(ino int, p []crashfs.Op) (int, int)) bool {
				im := r.Image(keep)
				fp := core.ImageHash(im)
				if n == from && label == "maximal" {
					closedFP = fp
				}
				if seen[fp] {
					return true
				}
				seen[fp] = true
				c.Eval(1)
				if len(cr.state) == 0 {
					c.Trivial(1)
				} else {
					c.Distinct("close", closedFP, n-from, fp)
				}
				st, _, _, err := core.RecoverImage(im, cfg, ks.Keys)
				var sig, detail string
				where := fmt.Sprintf("power loss %d file-system calls after Close returned (image '%s', unsynced ops per inode %v)", n-from, label, pend)
				if err != nil {
					sig = "open-after-close-failed"
					detail = fmt.Sprintf("%s: %v", where, err)
				} else if !st.Equal(cr.state) {
					sig = "closed-contents-lost"
					detail = fmt.Sprintf("%s: contents differ from the closed contents: %s", where, st.Diff(cr.state, 4))
				}
				if sig != "" {
					c.Violation(sig, detail, map[string]interface{}{"hash_seed": seed, "config": cfg, "keys": ks.HexKeys(60),
						"history": histData(h, cr.openIv), "image": core.DescribeImage(im)})
					return false
				}
				return true
			}
			if !emit("maximal", func(ino int, p []crashfs.Op) (int, int) { return len(p), -1 }) {
				return
			}
			if len(pend) == 0 {
				continue
			}
			if !emit("minimal", func(ino int, p []crashfs.Op) (int, int) { return 0, -1 }) {
				return
			}
			names := r.InoNames()
			for target := range pend {
				t := target
				if !emit("only "+names[t]+" loses", func(ino int, p []crashfs.Op) (int, int) {
					if ino == t {
						return 0, -1
					}
					return len(p), -1
				}) {
					return
				}
				if !emit("only "+names[t]+" keeps", func(ino int, p []crashfs.Op) (int, int) {
					if ino == t {
						return len(p), -1
					}
					return 0, -1
				}) {
					return
				}
			}
			for j := 0; j < 3; j++ {
				choice := map[int][2]int{}
				for ino := range pend {
					p := r.PendingOps(ino)
					k := rng.Intn(len(p) + 1)
					tear := -1
					if k < len(p) {
						if tp := crashfs.TearPoints(p[k]); len(tp) > 0 && rng.Intn(2) == 0 {
							tear = tp[rng.Intn(len(tp))]
						}
					}
					choice[ino] = [2]int{k, tear}
				}
				if !emit(fmt.Sprintf("random %v", choice), func(ino int, p []crashfs.Op) (int, int) { ch := choice[ino]; return ch[0], ch[1] }) {
					return
				}
			}
		}
	}
	if c.Violations() == 0 {
		c09FaultyClose(c, hb, cfg, ks, seed)
	}
	if c.Case < 2 {
		c.Sample(map[string]interface{}{"hash_seed": seed, "config": cfg, "nkeys": len(ks.Keys), "closes": len(closes),
			"calls": len(h.Iv), "first_calls": histData(h, 12)})
	}
}

// c09FaultyClose: every file-system call made by Close is failed once (on a copy that is opened, written to and
// closed). Whenever Close returns nil although a call failed, the power-loss images right after that Close must
// still open with exactly the closed contents - the statement starts with "After Close returns nil".
func c09FaultyClose(c *core.Ctx, hb *core.HB, cfg core.Config, ks *core.KeySet, seed uint32) {
	base := hb.Env.Crash.Snapshot()
	want := hb.Ref.Clone()
	for k := 0; k < 300; k++ {
		cenv := core.CrashEnvFromImage(base)
		ffs := core.NewFaultFS(cenv.FS)
		cenv.FS = ffs
		db, err := cenv.Open(cfg)
		if err != nil {
			c.Violation("open-error", "opening a crash image of the final state failed: "+err.Error(), nil)
			return
		}
		ref := want.Clone()
		for i := 0; i < 6; i++ {
			key := ks.Keys[(k+i*7)%len(ks.Keys)]
			val := core.MakeVal(100000+k*8+i, 20+i*30)
			if err := db.Put(key, val); err != nil {
				c.Violation("put-error", err.Error(), nil)
				return
			}
			ref[string(key)] = string(val)
		}
		ffs.Arm(k)
		cerr := db.Close()
		fired := ffs.Fired
		ffs.Disarm()
		if fired == "" {
			break
		}
		c.Stat("faulty_closes", 1)
		if cerr != nil {
			continue
		}
		c.Stat("faulty_closes_returned_nil", 1)
		log := cenv.Crash.Log
		r := crashfs.NewPowerReplayer(base, log)
		r.Advance(len(log))
		pend := r.Pending()
		names := r.InoNames()
		images := []struct {
			label string
			keep  func(ino int, p []crashfs.Op) (int, int)
		}{{"maximal", func(ino int, p []crashfs.Op) (int, int) { return len(p), -1 }}, {"minimal", func(ino int, p []crashfs.Op) (int, int) { return 0, -1 }}}
		for ino := range pend {
			t := ino
			images = append(images, struct {
				label string
				keep  func(ino int, p []crashfs.Op) (int, int)
			}{"only " + names[t] + " loses", func(ino int, p []crashfs.Op) (int, int) {
				if ino == t {
					return 0, -1
				}
				return len(p), -1
			}})
		}
		for _, im := range images {
			c.Eval(1)
			st, _, _, err := core.RecoverImage(r.Image(im.keep), cfg, ks.Keys)
			if err != nil {
				c.Violation("close-nil-after-fault-not-durable", fmt.Sprintf("Close returned nil although its file-system call #%d (%s) failed; power loss right afterwards (image '%s', unsynced %v): Open fails: %v", k, fired, im.label, pend, err),
					map[string]interface{}{"hash_seed": seed, "config": cfg, "failed_call": fired})
				return
			}
			if !st.Equal(ref) {
				c.Violation("close-nil-after-fault-not-durable", fmt.Sprintf("Close returned nil although its file-system call #%d (%s) failed; power loss right afterwards (image '%s', unsynced %v): contents differ: %s", k, fired, im.label, pend, st.Diff(ref, 3)),
					map[string]interface{}{"hash_seed": seed, "config": cfg, "failed_call": fired})
				return
			}
		}
	}
}
