#!/bin/bash
# tools/check_against.sh <repo_path> <ID> [tier] [seed]
# Runs one check against a scratch copy/worktree of the repository instead of /repo (used to validate the
# monitors against seeded changes in parallel without touching /repo). Evidence/replay files go to a scratch
# verif dir, never to /verif.
set -u
REPO="$1"; ID="$2"; TIER="${3:-quick}"; SEED="${4:-1}"
HERE="$(cd "$(dirname "$0")/.." && pwd)"
export GOFLAGS=-mod=mod GOPROXY=off GOSUMDB=off GOTOOLCHAIN=local CGO_ENABLED=1
W=$(mktemp -d /tmp/pvh-against-XXXXXX)
trap 'rm -rf "$W"' EXIT
sed "s#=> /repo#=> $REPO#" "$HERE/harness/go.mod" > "$W/go.mod"
cp "$HERE/harness/go.sum" "$W/go.sum" 2>/dev/null
mkdir -p "$W/verif/bin"
ln -s "$HERE/golden" "$W/verif/golden"
cp "$HERE/known_findings.json" "$W/verif/"
( cd "$HERE/harness" && go build -tags verif -modfile="$W/go.mod" -o "$W/verif/bin/pvh" ./cmd/pvh ) || { echo "BUILD-FAILED"; exit 3; }
case " C07 C10 C11 C12 " in *" $ID "*) ( cd "$HERE/harness" && go build -tags verif -race -modfile="$W/go.mod" -o "$W/verif/bin/pvh-race" ./cmd/pvh ) || { echo "BUILD-FAILED"; exit 3; };; esac
BIN="$W/verif/bin/pvh"
case " C07 C10 " in *" $ID "*) BIN="$W/verif/bin/pvh-race";; esac
PVH_VERIF_DIR="$W/verif" "$BIN" run "$ID" --tier "$TIER" --seed "$SEED"
