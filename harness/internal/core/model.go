package core

import (
	"bytes"
	"fmt"
	"path/filepath"
	"sort"
	"strings"

	"github.com/akrylysov/pogreb"

	"pvh/internal/decoder"
	"pvh/internal/keyeng"
)

// State is the reference model: key -> value.
type State map[string]string

func (s State) Clone() State {
	c := make(State, len(s))
	for k, v := range s {
		c[k] = v
	}
	return c
}

func (s State) Equal(o State) bool {
	if len(s) != len(o) {
		return false
	}
	for k, v := range s {
		if w, ok := o[k]; !ok || w != v {
			return false
		}
	}
	return true
}

func short(v string) string {
	if len(v) > 16 {
		return fmt.Sprintf("%x..(%d)", v[:16], len(v))
	}
	return fmt.Sprintf("%x", v)
}

// Diff describes up to max differences between got (s) and want (o).
func (s State) Diff(want State, max int) string {
	var out []string
	keys := map[string]bool{}
	for k := range s {
		keys[k] = true
	}
	for k := range want {
		keys[k] = true
	}
	var ks []string
	for k := range keys {
		ks = append(ks, k)
	}
	sort.Strings(ks)
	for _, k := range ks {
		g, gok := s[k]
		w, wok := want[k]
		switch {
		case gok && !wok:
			out = append(out, fmt.Sprintf("key %s: got %s, want absent", short(k), short(g)))
		case !gok && wok:
			out = append(out, fmt.Sprintf("key %s: got absent, want %s", short(k), short(w)))
		case g != w:
			out = append(out, fmt.Sprintf("key %s: got %s, want %s", short(k), short(g), short(w)))
		}
		if len(out) >= max {
			break
		}
	}
	return strings.Join(out, "; ")
}

// Dump reads the whole database through the public API and cross-checks Items, Count, Get, GetAppend and
// Has against each other; probe lists additional keys (present or not) to look up.
func Dump(db *pogreb.DB, probe [][]byte) (State, error) {
	st := State{}
	it := db.Items()
	for {
		k, v, err := it.Next()
		if err == pogreb.ErrIterationDone {
			break
		}
		if err != nil {
			return nil, fmt.Errorf("Items: %v", err)
		}
		if _, dup := st[string(k)]; dup {
			return nil, fmt.Errorf("Items returned key %s twice", short(string(k)))
		}
		if v == nil {
			return nil, fmt.Errorf("Items returned nil value for key %s", short(string(k)))
		}
		st[string(k)] = string(v)
	}
	for i := 0; i < 3; i++ {
		if k, v, err := it.Next(); err != pogreb.ErrIterationDone {
			return nil, fmt.Errorf("Next after ErrIterationDone returned (%x, %x, %v)", k, v, err)
		}
	}
	if c := int(db.Count()); c != len(st) {
		return nil, fmt.Errorf("Count()=%d but Items returned %d pairs", c, len(st))
	}
	seen := map[string]bool{}
	check := func(k []byte) error {
		if seen[string(k)] {
			return nil
		}
		seen[string(k)] = true
		w, ok := st[string(k)]
		v, err := db.Get(k)
		if err != nil {
			return fmt.Errorf("Get(%s): %v", short(string(k)), err)
		}
		if ok != (v != nil) || w != string(v) {
			return fmt.Errorf("Get(%s)=%s (nil=%v) disagrees with Items (%s, present=%v)", short(string(k)), short(string(v)), v == nil, short(w), ok)
		}
		h, err := db.Has(k)
		if err != nil {
			return fmt.Errorf("Has(%s): %v", short(string(k)), err)
		}
		if h != ok {
			return fmt.Errorf("Has(%s)=%v disagrees with Items (present=%v)", short(string(k)), h, ok)
		}
		prefix := []byte("pfx")
		ga, err := db.GetAppend(k, prefix)
		if err != nil {
			return fmt.Errorf("GetAppend(%s): %v", short(string(k)), err)
		}
		if ok {
			if !bytes.Equal(ga, append([]byte("pfx"), w...)) {
				return fmt.Errorf("GetAppend(%s)=%s, want prefix+%s", short(string(k)), short(string(ga)), short(w))
			}
		} else if ga != nil {
			return fmt.Errorf("GetAppend(%s) of absent key = %s", short(string(k)), short(string(ga)))
		}
		return nil
	}
	for _, k := range probe {
		if err := check(k); err != nil {
			return nil, err
		}
	}
	for k := range st {
		if err := check([]byte(k)); err != nil {
			return nil, err
		}
	}
	return st, nil
}

// IndexShape summarises the index geometry for distinctness accounting.
type IndexShape struct {
	Level      uint8
	Split      uint32
	NumBuckets uint32
	MaxChain   int
	Overflow   int // linked overflow buckets
	Free       int
	Slots      int
}

func (s IndexShape) Key() string {
	return fmt.Sprintf("L%d/S%d/B%d/C%d/O%d/F%d", s.Level, s.Split, s.NumBuckets, s.MaxChain, s.Overflow, s.Free)
}

// CheckIndex walks the index (under the database's read lock, via VerifIndexDump) at a quiescent point
// and checks the structural invariants I1-I5 of DESIGN.md C01 against the reference state. Every problem
// reported makes some API-level result wrong or relies on a duplicated/misplaced slot; I2 (used slot after
// a free one) is returned separately as a note.
func CheckIndex(db *pogreb.DB, env *Env, ref State) (problems []string, notes []string, shape IndexShape) {
	vi, err := db.VerifIndexDump()
	if err != nil {
		return []string{"index dump: " + err.Error()}, nil, shape
	}
	seed := db.VerifHashSeed()
	segs := db.VerifSegments()
	segData := map[uint16][]byte{}
	segName := map[uint16]string{}
	for _, s := range segs {
		d, err := env.ReadFile(filepath.Join(env.Dir, s.Name))
		if err != nil {
			problems = append(problems, fmt.Sprintf("segment %s unreadable: %v", s.Name, err))
			continue
		}
		segData[s.ID] = d
		segName[s.ID] = s.Name
	}
	shape = IndexShape{Level: vi.Level, Split: vi.SplitBucketIdx, NumBuckets: vi.NumBuckets, Free: len(vi.FreeBuckets)}
	if int(vi.NumBuckets) != len(vi.Chains) {
		problems = append(problems, fmt.Sprintf("numBuckets %d != chains %d", vi.NumBuckets, len(vi.Chains)))
	}
	if want := uint32(1)<<vi.Level + vi.SplitBucketIdx; vi.NumBuckets != want {
		problems = append(problems, fmt.Sprintf("numBuckets %d != 2^level+split = %d", vi.NumBuckets, want))
	}
	linked := map[int64]int{}
	seenKeys := map[string]string{}
	for ci, chain := range vi.Chains {
		if len(chain) > shape.MaxChain {
			shape.MaxChain = len(chain)
		}
		for bi, b := range chain {
			if bi > 0 {
				shape.Overflow++
				if prev, dup := linked[b.Offset]; dup {
					problems = append(problems, fmt.Sprintf("overflow bucket %d linked from chains %d and %d", b.Offset, prev, ci))
				}
				linked[b.Offset] = ci
				if b.Offset < 512 || b.Offset%512 != 0 || b.Offset+512 > vi.OverflowSize {
					problems = append(problems, fmt.Sprintf("chain %d: overflow bucket offset %d out of file (size %d)", ci, b.Offset, vi.OverflowSize))
				}
			}
			if b.UsedAfterFree {
				notes = append(notes, fmt.Sprintf("I2: chain %d bucket %d has a used slot after a free one", ci, bi))
			}
			for _, sl := range b.Slots {
				shape.Slots++
				if got := vi.VerifBucketIndex(sl.Hash); got != uint32(ci) {
					problems = append(problems, fmt.Sprintf("I1: slot with hash %08x stored in chain %d, belongs to %d", sl.Hash, ci, got))
				}
				d, ok := segData[sl.SegmentID]
				if !ok {
					problems = append(problems, fmt.Sprintf("I4: slot points at segment id %d which does not exist", sl.SegmentID))
					continue
				}
				rec, ok := decoder.DecodeAt(d, int64(sl.Offset))
				if !ok {
					problems = append(problems, fmt.Sprintf("I4: slot (%s@%d) does not point at a valid record", segName[sl.SegmentID], sl.Offset))
					continue
				}
				if rec.Delete || len(rec.Key) != int(sl.KeySize) || len(rec.Value) != int(sl.ValueSize) {
					problems = append(problems, fmt.Sprintf("I4: slot (%s@%d) sizes k=%d v=%d disagree with record k=%d v=%d del=%v", segName[sl.SegmentID], sl.Offset, sl.KeySize, sl.ValueSize, len(rec.Key), len(rec.Value), rec.Delete))
					continue
				}
				if h := keyeng.Sum(seed, rec.Key); h != sl.Hash {
					problems = append(problems, fmt.Sprintf("I4: slot hash %08x != hash of record key %08x", sl.Hash, h))
				}
				k := string(rec.Key)
				if prev, dup := seenKeys[k]; dup {
					problems = append(problems, fmt.Sprintf("I3: key %s has two slots (%s and %s@%d)", short(k), prev, segName[sl.SegmentID], sl.Offset))
					continue
				}
				seenKeys[k] = fmt.Sprintf("%s@%d", segName[sl.SegmentID], sl.Offset)
				if ref != nil {
					w, ok := ref[k]
					if !ok {
						problems = append(problems, fmt.Sprintf("I3: slot for key %s which the reference does not contain", short(k)))
					} else if w != string(rec.Value) {
						problems = append(problems, fmt.Sprintf("I3: slot for key %s points at value %s, reference has %s", short(k), short(string(rec.Value)), short(w)))
					}
				}
			}
		}
	}
	if ref != nil {
		for k := range ref {
			if _, ok := seenKeys[k]; !ok {
				problems = append(problems, fmt.Sprintf("I3: reference key %s has no slot", short(k)))
				if len(problems) > 20 {
					break
				}
			}
		}
	}
	if shape.Slots != int(vi.NumKeys) {
		problems = append(problems, fmt.Sprintf("I3: %d used slots but numKeys=%d", shape.Slots, vi.NumKeys))
	}
	freeSeen := map[int64]bool{}
	for _, off := range vi.FreeBuckets {
		if off < 512 || off%512 != 0 || off+512 > vi.OverflowSize {
			problems = append(problems, fmt.Sprintf("I5: free bucket offset %d out of overflow file (size %d)", off, vi.OverflowSize))
		}
		if freeSeen[off] {
			problems = append(problems, fmt.Sprintf("I5: free bucket offset %d listed twice", off))
		}
		freeSeen[off] = true
		if ci, ok := linked[off]; ok {
			problems = append(problems, fmt.Sprintf("I5: free bucket offset %d is linked in chain %d", off, ci))
		}
	}
	return problems, notes, shape
}

// CheckSegmentCounters compares, at a quiescent point, the per-segment record counters the database keeps in
// memory (they drive pickForCompaction: a segment whose delete records are not counted may be compacted alone,
// dropping delete markers whose puts live in older segments) with what the independent decoder finds in the
// segment files. It returns a description of the first mismatch that can make compaction unsafe: delete records
// present in the file but a DeleteRecords counter of zero.
func CheckSegmentCounters(db *pogreb.DB, env *Env) string {
	for _, s := range db.VerifSegments() {
		d, err := env.ReadFile(filepath.Join(env.Dir, s.Name))
		if err != nil {
			continue
		}
		recs, _, err := decoder.ValidPrefix(d)
		if err != nil {
			continue
		}
		dels := 0
		for _, r := range recs {
			if r.Delete {
				dels++
			}
		}
		if dels > 0 && s.DeleteRecords == 0 {
			return fmt.Sprintf("segment %s holds %d delete records but its DeleteRecords counter is 0: compaction may drop these delete markers while older segments still hold the deleted keys", s.Name, dels)
		}
	}
	return ""
}
