package checks

import (
	"fmt"

	"pvh/internal/core"
)

func init() {
	core.Register(&core.Check{
		ID:    "C02",
		Level: "exploration",
		Rule: "one case = one generated program (C01's generator: engineered collisions, chains, splits, free list, rollover, compaction) " +
			"cut into sessions by clean Close/Open at PRNG positions (after fills, deletes, compactions, on an empty database); " +
			"after every restart: recovery must not run, lock file must be gone after Close, full read-back (Items/Count/Get/Has/GetAppend of all keys " +
			"incl. absent ones) and structural index walk must equal the reference, the index geometry (level, split pointer, buckets, free list) " +
			"must equal the one before Close; half of the restarts add an idle Open+Close whose segment files must stay byte-identical; " +
			"on real directories restarts alternate fs.OS <-> fs.OSMMap; half of the programs run with the library's own random hash seeds and " +
			"half of the programs empty the database completely, restart and refill it; on CrashFS every file-system call made by a final Close is failed " +
			"once (fault injection): whenever Close returns nil anyway the directory must reopen without recovery with the closed contents. evaluations = API calls compared (restarts included); " +
			"distinct_nontrivial = distinct (restart position, index shape at restart) pairs; a restart with an empty index is counted trivial.",
		Assumptions: []string{
			"reference model: Go map carried across sessions",
			"hash seed pinned by the verif hook for the first session; later sessions read it from db.pmt",
		},
		Cases: func(tier string) int {
			if tier == "thorough" {
				return 6000
			}
			return 160
		},
		Run:     runC02,
		Require: []string{"seed_zero_programs", "unpinned_seed_programs", "emptied_and_refilled", "faulty_closes", "clean_restarts", "idle_cycles", "fs_switches", "restarts_with_chain", "restarts_with_free_list", "restarts_mid_level", "compactions_effective"},
	})
}

func runC02(c *core.Ctx) {
	rng := c.Rng
	seed := rng.Uint32()
	// odd cases run with the library's own random hash seeds (a new one whenever the database has been emptied and is
	// opened again); the keys are engineered for the seed the first Open drew
	unpinned := c.Case%2 == 1
	if unpinned {
		core.UnpinSeed()
		c.Stat("unpinned_seed_programs", 1)
	} else {
		if c.Case%16 == 8 {
			seed = 0 // a legal seed like any other; only the first draw is pinned to it
			c.Stat("seed_zero_programs", 1)
			core.PinSeedOnce(seed)
		} else {
			core.PinSeed(seed)
		}
	}
	cfg := core.RandConfig(rng)
	var fsk core.FSKind
	switch c.Case % 4 {
	case 0:
		fsk = core.FSMem
	case 1:
		fsk = core.FSCrash
	case 2:
		fsk = core.FSOS
	default:
		fsk = core.FSOSMMap
	}
	env := core.NewEnv(fsk)
	defer func() { env.Cleanup() }()
	x, err := core.NewExec(c, env, cfg, nil)
	if err != nil {
		c.Violation("open-error", fmt.Sprintf("first Open failed: %v", err), nil)
		return
	}
	defer func() {
		if x.DB != nil {
			x.DB.Close()
		}
	}()
	if unpinned {
		seed = x.DB.VerifHashSeed()
	}
	ks := core.GenKeys(rng, seed, randKeySpec(c))
	x.Keys = ks.Keys
	nops := 150 + rng.Intn(1200)
	ops := core.GenOps(rng, ks, core.ProgSpec{NOps: nops, CompactPct: 40, Reopen: true})
	if rng.Intn(2) == 0 {
		// empty the database completely, restart (a new hash seed is drawn for an empty index), refill
		at := len(ops) / 3 * (1 + rng.Intn(2))
		var emptied []core.Op
		emptied = append(emptied, ops[:at]...)
		for i := range ks.Keys {
			emptied = append(emptied, core.Op{K: core.OpDelete, Key: i})
		}
		emptied = append(emptied, core.Op{K: core.OpReopen}, core.Op{K: core.OpVerify})
		for _, i := range rng.Perm(len(ks.Keys)) {
			emptied = append(emptied, core.Op{K: core.OpPut, Key: i, VLen: 8 + rng.Intn(30)})
		}
		emptied = append(emptied, core.Op{K: core.OpReopen})
		ops = append(emptied, ops[at:]...)
		c.Stat("emptied_and_refilled", 1)
	}
	// extra restarts: right at the start (empty database), after compactions, and at PRNG positions
	var withRestarts []core.Op
	if rng.Intn(3) == 0 {
		withRestarts = append(withRestarts, core.Op{K: core.OpReopen})
	}
	for _, op := range ops {
		withRestarts = append(withRestarts, op)
		if (op.K == core.OpCompact && rng.Intn(3) == 0) || rng.Intn(150) == 0 {
			withRestarts = append(withRestarts, core.Op{K: core.OpReopen})
		}
	}
	withRestarts = append(withRestarts, core.Op{K: core.OpReopen})
	ops = withRestarts
	x.AltFS = true
	x.AltSpelling = c.Case%8 < 2 // Mem and CrashFS cases
	x.IdleCycles = rng.Intn(2) == 0
	c.Stat("fs_"+string(fsk), 1)
	fail := func(i int, sig, detail string) {
		c.Violation(sig, detail, progData(seed, fsk, cfg, ks, ops, i+1))
	}
	var shapeBefore core.IndexShape
	x.AfterReopen = func(x *core.Exec) string {
		if d := x.Verify(); d != "" {
			return d
		}
		_, _, shape := core.CheckIndex(x.DB, x.Env, x.Ref)
		if shape != shapeBefore {
			return fmt.Sprintf("index geometry changed across clean restart: %+v -> %+v", shapeBefore, shape)
		}
		if shape.Slots == 0 {
			c.Trivial(1)
		} else {
			c.Distinct("restart", x.OpIdx, shape.Key())
		}
		if shape.MaxChain > 1 {
			c.Stat("restarts_with_chain", 1)
		}
		if shape.Free > 0 {
			c.Stat("restarts_with_free_list", 1)
		}
		if shape.Split > 0 {
			c.Stat("restarts_mid_level", 1)
		}
		if len(x.DB.VerifSegments()) > 1 {
			c.Stat("restarts_multi_segment", 1)
		}
		return ""
	}
	for i, op := range ops {
		if op.K == core.OpReopen {
			_, _, shapeBefore = core.CheckIndex(x.DB, x.Env, x.Ref)
		}
		if sig, detail := x.Do(op); sig != "" {
			fail(i, sig, detail)
			return
		}
	}
	if fsk == core.FSCrash && c.Violations() == 0 {
		c02FaultyClose(c, x, cfg, seed)
	}
	if c.Case < 2 {
		c.Sample(map[string]interface{}{"hash_seed": seed, "fs": fsk, "config": cfg, "nkeys": len(ks.Keys),
			"nops": len(ops), "first_ops": core.OpsToStrings(ops, 30)})
	}
}

// c02FaultyClose: for every file-system call k made by Close, a copy of the database is opened, written to and
// closed with call k failing. Whenever that Close returns nil anyway, the directory must reopen - without
// recovery - with exactly the closed contents (the statement starts with "After Close returns nil").
func c02FaultyClose(c *core.Ctx, x *core.Exec, cfg core.Config, seed uint32) {
	base := x.Env.Crash.Snapshot() // while open: lock present, the copy starts with a recovery
	want := x.Ref.Clone()
	for k := 0; k < 400; k++ {
		cenv := core.CrashEnvFromImage(base)
		ffs := core.NewFaultFS(cenv.FS)
		cenv.FS = ffs
		db, err := cenv.Open(cfg)
		if err != nil {
			c.Violation("open-error", "opening a crash image of the final state failed: "+err.Error(), nil)
			return
		}
		ref := want.Clone()
		for i := 0; i < 5; i++ {
			key := []byte(fmt.Sprintf("fault-%d", i))
			val := core.MakeVal(k*8+i, 12)
			if err := db.Put(key, val); err != nil {
				c.Violation("put-error", err.Error(), nil)
				return
			}
			ref[string(key)] = string(val)
		}
		ffs.Arm(k)
		cerr := db.Close()
		fired := ffs.Fired
		ffs.Disarm()
		c.Eval(1)
		if fired == "" {
			break // k is beyond the calls Close makes
		}
		c.Stat("faulty_closes", 1)
		if cerr != nil {
			c.Stat("faulty_closes_reported_error", 1)
			continue
		}
		c.Stat("faulty_closes_returned_nil", 1)
		rec0 := core.Recoveries()
		db2, err := cenv.Open(cfg)
		if err != nil {
			c.Violation("close-nil-but-unopenable", fmt.Sprintf("Close returned nil although its file-system call #%d (%s) failed; the next Open fails: %v", k, fired, err),
				map[string]interface{}{"hash_seed": seed, "config": cfg, "failed_call": fired})
			return
		}
		st, derr := core.Dump(db2, x.Keys)
		recovered := core.Recoveries() != rec0
		db2.Close()
		if derr != nil || !st.Equal(ref) {
			c.Violation("close-nil-but-contents-lost", fmt.Sprintf("Close returned nil although its file-system call #%d (%s) failed; after reopening the contents differ: %v %s", k, fired, derr, st.Diff(ref, 3)),
				map[string]interface{}{"hash_seed": seed, "config": cfg, "failed_call": fired})
			return
		}
		if recovered {
			c.Violation("reopen-recovered", fmt.Sprintf("Close returned nil (call #%d %s failed) but the next Open needed recovery", k, fired), nil)
			return
		}
	}
}
